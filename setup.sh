#!/bin/sh
# Offline set-up: overlay interpreter /verif/.venv = /venv's packages + crosshair-tool + z3-solver from the wheelhouse
cd "$(dirname "$0")" || exit 2
export PYTHONDONTWRITEBYTECODE=1 PIP_NO_INDEX=1
exec /venv/bin/python -c "import sys; sys.path.insert(0,'.'); from vlib.main import bootstrap; bootstrap(); print('setup ok')"
