"""C09 - child mutations behave like edits of an ordered list (E1: bounded histories vs. a list model)."""
from vlib.chglue import PART_K, PART_N, TIER, THOROUGH, in_part, reset_defaults, concrete
from harness import hist as H

TOL = 2
SEG_ACTS = H.actions('seg', H.FULL_OPS)
MSG_ACTS = H.actions('msg', H.FULL_OPS)
FLD_ACTS = H.actions('fld', H.FULL_OPS)
NFLD, NINIT_FLD = len(FLD_ACTS), 2
CORE_SEG_ACTS = H.actions('seg', H.CORE_OPS)
CORE_MSG_ACTS = H.actions('msg', H.CORE_OPS)
NSEG, NMSG, NCORE, NCOREM = len(SEG_ACTS), len(MSG_ACTS), len(CORE_SEG_ACTS), len(CORE_MSG_ACTS)
NINIT_SEG, NINIT_MSG = 3, 2


REPLACING = (H.SET, H.SETLONG, H.SETELEM, H.SETDTOK)


def run(target, init, acts, trace=None, level=TOL):
    """True iff after every step the real element encodes exactly as the list model says."""
    reset_defaults()
    el, model = H.make(target, init, level)
    if el.to_er7() != H.expected_er7(target, model):
        if trace is not None:
            trace.append('initial state: real %r expected %r' % (el.to_er7(), H.expected_er7(target, model)))
        return False
    for step, act in enumerate(acts, 1):
        new = H.apply_model(target, model, act, step, level)
        name = H.TARGETS[target]['names'][act[1]]
        replaces = act[0] in REPLACING and any(nm == name for nm, _ in model)
        try:
            H.apply_real(target, el, act, step, level)
            raised = None
        except Exception as e:
            raised = e
        if raised is not None and replaces:
            # replacing an existing child by a valid value of the same kind is an edit the list model always allows: under
            # neither level may it be refused (e.g. because the old child still counts against the cardinality)
            if trace is not None:
                trace.append('%d. %s -> raised %r although it replaces an existing child' % (step, H.describe(target, act, step), raised))
            return False
        if raised is None and new is not None:
            model = new
        # a refused operation (raised) leaves the model as it was; an operation the model refuses (absent index)
        # and the library ignores silently also leaves it as it was
        real, exp = el.to_er7(), H.expected_er7(target, model)
        if trace is not None:
            trace.append('%d. %s%s\n      real     %r\n      expected %r' % (
                step, H.describe(target, act, step), ' -> raised %r' % (raised,) if raised else '', real, exp))
        if real != exp:
            return False
    return True


def _ob_seg2(init: int, a1: int, a2: int) -> bool:
    """
    pre: 0 <= init < NINIT_SEG and 0 <= a1 < NSEG and 0 <= a2 < NSEG
    pre: in_part(a1)
    post: _
    """
    init = H.concretize(init, NINIT_SEG)
    a1 = H.concretize(a1, NSEG)
    a2 = H.concretize(a2, NSEG)
    with concrete():
        return run('seg', init, [SEG_ACTS[a1], SEG_ACTS[a2]])


def _ob_seg3c(init: int, a1: int, a2: int, a3: int) -> bool:
    """
    pre: 0 <= init < NINIT_SEG and 1 <= a1 < NCORE and 1 <= a2 < NCORE and 1 <= a3 < NCORE
    pre: in_part(a1 * NCORE + a2)
    post: _
    """
    init = H.concretize(init, NINIT_SEG)
    a1 = H.concretize(a1, NCORE)
    a2 = H.concretize(a2, NCORE)
    a3 = H.concretize(a3, NCORE)
    with concrete():
        return run('seg', init, [CORE_SEG_ACTS[a1], CORE_SEG_ACTS[a2], CORE_SEG_ACTS[a3]])


SEG3_ACTS = H.actions('seg', H.FULL_OPS, [0, 2], 2)      # length 3: every operation, on two of the three child names, repetitions 0..1
NSEG3 = len(SEG3_ACTS)


def _ob_seg3(init: int, a1: int, a2: int, a3: int) -> bool:
    """
    pre: 0 <= init < NINIT_SEG and 1 <= a1 < NSEG3 and 1 <= a2 < NSEG3 and 1 <= a3 < NSEG3
    pre: in_part(a1 * NSEG3 + a2)
    post: _
    """
    init = H.concretize(init, NINIT_SEG)
    a1 = H.concretize(a1, NSEG3)
    a2 = H.concretize(a2, NSEG3)
    a3 = H.concretize(a3, NSEG3)
    with concrete():
        return run('seg', init, [SEG3_ACTS[a1], SEG3_ACTS[a2], SEG3_ACTS[a3]])


def _ob_msg2(init: int, a1: int, a2: int) -> bool:
    """
    pre: 0 <= init < NINIT_MSG and 0 <= a1 < NMSG and 0 <= a2 < NMSG
    pre: in_part(a1)
    post: _
    """
    init = H.concretize(init, NINIT_MSG)
    a1 = H.concretize(a1, NMSG)
    a2 = H.concretize(a2, NMSG)
    with concrete():
        return run('msg', init, [MSG_ACTS[a1], MSG_ACTS[a2]])


def _ob_fld2(init: int, a1: int, a2: int) -> bool:
    """
    pre: 0 <= init < NINIT_FLD and 0 <= a1 < NFLD and 0 <= a2 < NFLD
    pre: in_part(a1)
    post: _
    """
    init = H.concretize(init, NINIT_FLD)
    a1 = H.concretize(a1, NFLD)
    a2 = H.concretize(a2, NFLD)
    with concrete():
        return run('fld', init, [FLD_ACTS[a1], FLD_ACTS[a2]])


def _ob_seg2s(init: int, a1: int, a2: int) -> bool:
    """
    pre: 0 <= init < NINIT_SEG and 0 <= a1 < NSEG and 0 <= a2 < NSEG
    pre: in_part(a1)
    post: _
    """
    init = H.concretize(init, NINIT_SEG)
    a1 = H.concretize(a1, NSEG)
    a2 = H.concretize(a2, NSEG)
    with concrete():
        return run('seg', init, [SEG_ACTS[a1], SEG_ACTS[a2]], None, 1)


def _ob_fld2s(init: int, a1: int, a2: int) -> bool:
    """
    pre: 0 <= init < NINIT_FLD and 0 <= a1 < NFLD and 0 <= a2 < NFLD
    pre: in_part(a1)
    post: _
    """
    init = H.concretize(init, NINIT_FLD)
    a1 = H.concretize(a1, NFLD)
    a2 = H.concretize(a2, NFLD)
    with concrete():
        return run('fld', init, [FLD_ACTS[a1], FLD_ACTS[a2]], None, 1)


def _ob_msg3c(init: int, a1: int, a2: int, a3: int) -> bool:
    """
    pre: 0 <= init < NINIT_MSG and 1 <= a1 < NCOREM and 1 <= a2 < NCOREM and 1 <= a3 < NCOREM
    pre: in_part(a1 * NCOREM + a2)
    post: _
    """
    init = H.concretize(init, NINIT_MSG)
    a1 = H.concretize(a1, NCOREM)
    a2 = H.concretize(a2, NCOREM)
    a3 = H.concretize(a3, NCOREM)
    with concrete():
        return run('msg', init, [CORE_MSG_ACTS[a1], CORE_MSG_ACTS[a2], CORE_MSG_ACTS[a3]])


OBS = {'_ob_seg2': ('seg', SEG_ACTS), '_ob_seg3c': ('seg', CORE_SEG_ACTS), '_ob_seg3': ('seg', SEG3_ACTS),
       '_ob_msg2': ('msg', MSG_ACTS), '_ob_msg3c': ('msg', CORE_MSG_ACTS), '_ob_fld2': ('fld', FLD_ACTS),
       '_ob_seg2s': ('seg', SEG_ACTS), '_ob_fld2s': ('fld', FLD_ACTS)}
STRICT_OBS = ('_ob_seg2s', '_ob_fld2s')


def explain(call):
    import re
    m = re.match(r'(\w+)\((.*)\)$', call, re.S)
    a, k = eval('(lambda *a, **k: (a, k))(%s)' % m.group(2))
    target, alphabet = OBS[m.group(1)]
    v = dict(zip(['init', 'a1', 'a2', 'a3'], a))
    v.update(k)
    acts = [alphabet[v[x]] for x in ('a1', 'a2', 'a3') if x in v]
    tr = []
    level = 1 if m.group(1) in STRICT_OBS else TOL
    el, model = H.make(target, v['init'], level)
    tr.append('target %s, %s, initial state (init=%d): %r' % (target, 'STRICT' if level == 1 else 'TOLERANT', v['init'], el.to_er7()))
    run(target, v['init'], acts, tr, level)
    return '\n'.join(tr)


_FULL = ', '.join(H.OPNAMES[o] for o in H.FULL_OPS)
_CORE = ', '.join(H.OPNAMES[o] for o in H.CORE_OPS)
SPEC = {
    'property': 'C09',
    'files': ['hl7apy/core.py', 'hl7apy/parser.py'],
    'functions_encoded': ['hl7apy.core.ElementList.set/append/insert/remove/remove_by_name/child_at_index/replace_child/'
                          'create_element/_can_add_child', 'hl7apy.core.ElementProxy.__setitem__/__delitem__/__getitem__',
                          'hl7apy.core.Element.__setattr__/__delattr__/add/_set_parent', 'hl7apy.core.Segment.add/add_field/'
                          'to_er7/_get_children', 'hl7apy.core.Group.add_segment/_get_children', 'hl7apy.core.Message'],
    'assumptions': ['HL7 v2.5; TOLERANT validation level, and STRICT for the length-2 histories on segment and field (under STRICT a group or message encodes in structure order, which is the recorded finding C05-strict-structure-order)',
                    'a call that raises is treated as refused (model unchanged); what a refused call may leave behind is C12',
                    'reference model and reference encoder are written in harness/hist.py and use no hl7apy logic',
                    'every action index is symbolic; CrossHair/z3 enumerate the finite action space (fork per value) and '
                    'certify that it was exhausted; once a path has fixed the history, the library code runs concretely '
                    '(untraced) on it - the solver contributes exhaustion and counterexamples, not abstraction, here'],
    'outside': ['histories longer than the bound; children other than PID_3/PID_5/PID_8 of PID and NK1/OBX/AL1 of ADT_A01; '
                'groups as targets; fields other than PID_5 (components XPN_1/XPN_2/XPN_7); STRICT on messages'],
    'stubs': [],
    'obligations': [
        {'name': 'seg.len2', 'fn': '_ob_seg2', 'parts': 16, 'cond_timeout': 600, 'path_timeout': 40,
         'bound': 'Segment PID, %d initial states x every history of length <=2 over %d actions (%s)' % (NINIT_SEG, NSEG, _FULL)},
        {'name': 'msg.len2', 'fn': '_ob_msg2', 'parts': 16, 'cond_timeout': 600, 'path_timeout': 60,
         'bound': 'Message ADT_A01, %d initial states x every history of length <=2 over %d actions (%s)' % (NINIT_MSG, NMSG, _FULL)},
        {'name': 'fld.len2', 'fn': '_ob_fld2', 'parts': 16, 'cond_timeout': 600, 'path_timeout': 40,
         'bound': 'Field PID_5, %d initial states x every history of length <=2 over %d actions (%s)' % (NINIT_FLD, NFLD, _FULL)},
        {'name': 'seg.len2.strict', 'fn': '_ob_seg2s', 'parts': 16, 'cond_timeout': 600, 'path_timeout': 40,
         'bound': 'the same histories of length <=2 on Segment PID under STRICT (a refused call leaves the model as it was; a call that '
                  'replaces an existing child must not be refused)'},
        {'name': 'fld.len2.strict', 'fn': '_ob_fld2s', 'parts': 16, 'cond_timeout': 600, 'path_timeout': 40,
         'bound': 'the same histories of length <=2 on Field PID_5 under STRICT'},
        {'name': 'seg.len3.core', 'fn': '_ob_seg3c', 'parts': 32, 'cond_timeout': 900, 'path_timeout': 40,
         'bound': 'Segment PID, %d initial states x every history of length 3 over the %d core actions (%s)' % (NINIT_SEG, NCORE - 1, _CORE)},
    ] + ([
        {'name': 'seg.len3.full', 'fn': '_ob_seg3', 'parts': 96, 'cond_timeout': 3000, 'path_timeout': 40,
         'bound': 'Segment PID, %d initial states x every history of length 3 over %d actions (every operation, child names PID_3 / '
                  'PID_8, repetitions 0..1)' % (NINIT_SEG, NSEG3 - 1)},
        {'name': 'msg.len3.core', 'fn': '_ob_msg3c', 'parts': 32, 'cond_timeout': 3000, 'path_timeout': 60,
         'bound': 'Message ADT_A01, %d initial states x every history of length 3 over the %d core actions' % (NINIT_MSG, NCOREM - 1)},
    ] if THOROUGH else []),
}
