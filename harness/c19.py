"""C19 - concurrent use gives the same results as sequential use: the SERIAL-SCHEDULE part only.

"A completes, then B runs" is a legal interleaving of two threads, so  signature(B after A) == signature(B alone)  is a
necessary condition of C19; a counterexample is a true violation.  Pre-emptive interleavings INSIDE a call cannot be
encoded by a sequential symbolic executor and are outside this check (see DESIGN.md)."""
import os
import pickle
import threading

from vlib.chglue import PART_K, PART_N, TIER, THOROUGH, in_part, reset_defaults, concrete, forked as _forked
from harness.c02 import bsearch
from harness import corpus as K

NC = K.NCALLS
_ALONE = {}


def alone(i):
    if i not in _ALONE:
        _ALONE[i] = _forked(lambda: K.sig(K.CALLS[i]))
    return _ALONE[i]


def _in_thread(fn):
    box = []
    t = threading.Thread(target=lambda: box.append(K.sig(fn)))
    t.start()
    t.join()
    return box[0]


def _run_schedule(order, threads):
    reset_defaults()
    for i in order[:-1]:
        (_in_thread(K.CALLS[i]) if threads else K.sig(K.CALLS[i]))
    return _in_thread(K.CALLS[order[-1]]) if threads else K.sig(K.CALLS[order[-1]])


def serial(order, trace=None, threads=False):
    """run the calls of `order` one after the other (in a fresh child process); the last one must return what it returns when run
    alone (in another fresh child)"""
    want = alone(order[-1])
    got = _forked(lambda: _run_schedule(order, threads))
    if trace is not None:
        trace.append('after %s, %s returned\n   %r\nalone it returns\n   %r' % (
            [K.CALLS[i].__name__ for i in order[:-1]], K.CALLS[order[-1]].__name__, got, want))
    return got == want


def _ob_pair(a: int, b: int) -> bool:
    """
    pre: 0 <= a < NC and 0 <= b < NC
    pre: in_part(a)
    post: _
    """
    a, b = bsearch(a, NC), bsearch(b, NC)
    with concrete():
        return serial([a, b])


def _ob_triple(a: int, b: int, c: int) -> bool:
    """
    pre: 0 <= a < NC and 0 <= b < NC and 0 <= c < NC
    pre: in_part(a * NC + b)
    post: _
    """
    a, b, c = bsearch(a, NC), bsearch(b, NC), bsearch(c, NC)
    with concrete():
        return serial([a, b, c])


def explain(call):
    import re
    m = re.match(r'(\w+)\((.*)\)$', call, re.S)
    a, kw = eval('(lambda *a, **k: (a, k))(%s)' % m.group(2))
    order = list(a) + [kw[k] for k in ('a', 'b', 'c') if k in kw]
    tr = []
    serial(order, tr)
    tr.append('same schedule with real threads joined in sequence: %s' % serial(order, None, True))
    return '\n'.join(tr)


SPEC = {
    'property': 'C19',
    'level': 'exploration',
    'files': ['hl7apy/factories.py', 'hl7apy/__init__.py', 'hl7apy/core.py', 'hl7apy/base_datatypes.py'],
    'functions_encoded': ['every function reached by the %d corpus calls of harness/corpus.py, run back to back in one process '
                          '(datatype_factory incl. the overridden factories and the ST fallback, load_library, parse_*, '
                          'constructors, to_er7, validate)' % NC],
    'assumptions': ['ONLY serial schedules (call boundaries) are explored: a necessary condition of C19',
                    'every schedule, and every "alone" run, executes in a forked child of the worker, i.e. from the state of a '
                    'process that has imported hl7apy and run nothing else',
                    'call indices are symbolic and exhausted by CrossHair/z3; each ordered tuple then runs concretely'],
    'outside': ['every schedule with a context switch inside a call; switch-interval stress; N simultaneous threads'],
    'stubs': [],
    'obligations': [
        {'name': 'serial.pairs', 'fn': '_ob_pair', 'parts': 24, 'cond_timeout': 900, 'path_timeout': 60,
         'bound': 'every ordered pair of the %d corpus calls (%d schedules)' % (NC, NC * NC)},
        {'name': 'serial.triples', 'fn': '_ob_triple', 'parts': 48, 'cond_timeout': 3000, 'path_timeout': 60,
         'bound': 'every ordered triple of the %d corpus calls (%d schedules)' % (NC, NC ** 3)},
    ],
}
