"""C08 - group-finding is sound, order-preserving and deterministic (E1, message level).

For a message structure taken from the live tables, a reference expander (written here, reading the tables as data)
builds an instance from symbolic choices: a presence bit for each of the first 6 optional children (depth-first), and a
repetition count 1..2 for the first two repeatable groups whose first emitted member may occur only once.  The parsed
tree is then compared with the structure and with the expander's own tree.
"""
import random
import re

from vlib.chglue import PART_K, PART_N, TIER, THOROUGH, SEED, in_part, reset_defaults, concrete, forked as _forked
from harness.c02 import bsearch
from harness import tables as T
from hl7apy.parser import parse_message

NBITS = 6
PANEL = [('2.5', 'OML_O33'), ('2.5', 'RSP_K21'), ('2.5', 'ADT_A01'), ('2.5', 'ORU_R01'), ('2.3', 'ORU_R01'), ('2.4', 'OMG_O19'),
         ('2.6', 'OML_O21'), ('2.7', 'ADT_A01'), ('2.8', 'OML_O33'), ('2.3.1', 'ADT_A01'), ('2.2', 'ORU_R01'), ('2.5.1', 'RSP_K21'),
         ('2.5', 'SIU_S12'), ('2.5', 'RDE_O11'), ('2.5', 'VXU_V04'), ('2.5', 'MFN_M02'), ('2.5', 'BAR_P01'), ('2.5', 'DFT_P03'),
         ('2.6', 'ADT_A39'), ('2.4', 'ORM_O01'), ('2.8.2', 'ORU_R01'), ('2.1', 'ORU_R01'), ('2.3', 'ADT_A01'), ('2.5', 'PPR_PC1')]


def seg_names(ref, acc=None):
    acc = [] if acc is None else acc
    for c in ref[1]:
        if c[3] == 'SEG':
            acc.append(c[0])
        else:
            seg_names(c[1], acc)
    return acc


def _structures():
    out = [(v, m) for (v, m) in PANEL if m in T.LIBS[v].MESSAGES]
    rnd = random.Random(1000 + SEED)
    # structures that mention the pseudo-segments ANY / ANYHL7SEGMENT / ANYZSEGMENT have no fixed shape
    # (names such as QBP_Qnn / MFN_Znn are templates of the standard, 'nn' standing for digits: no message carries them)
    allm = [(v, m) for v in T.VERSIONS for m in T.MSGS[v] if (v, m) not in out and m == m.upper() and
            all(n in T.SEGS[v] and T.seg_children(v, n) is not None for n in seg_names(T.LIBS[v].MESSAGES[m]))]
    out += rnd.sample(allm, 376 if THOROUGH else 20)
    return out


STRUCTS = _structures()
NS = len(STRUCTS)
NCHOICE = (1 << NBITS) * 9        # presence bits x (1st repeatable group, 2nd) in {once, twice, twice with the optional leading members of the 2nd repetition left out}^2


def ref_of(v, m):
    return T.LIBS[v].MESSAGES[m]


def seg_names(ref, acc=None):
    acc = [] if acc is None else acc
    for c in ref[1]:
        if c[3] == 'SEG':
            acc.append(c[0])
        else:
            seg_names(c[1], acc)
    return acc


class _State(object):
    def __init__(self, bits, reps):
        self.bits = bits
        self.nbit = 0
        self.reps = reps
        self.nrep = 0

    def bit(self):
        if self.nbit >= NBITS:
            return False
        b = (self.bits >> self.nbit) & 1
        self.nbit += 1
        return bool(b)


def expand(ref, st, top=True):
    """returns a list of nodes: ('SEG', name) or ('GRP', name, [nodes])"""
    out = []
    for (name, cref, (mn, mx), kind) in ref[1]:
        if name == 'MSH' and top:
            continue
        present = True if mn >= 1 else st.bit()
        if not present:
            continue
        if kind == 'SEG':
            out.append(('SEG', name))
        else:
            body = expand(cref, st, False)
            if not _has_segment(body):
                if mn < 1:
                    continue
                body = _force_first(cref)      # a required group whose members are all optional: emit its first member
                if not body:
                    continue
            # the group is repeated only when the first segment it emits may occur once in it: then the recurrence of that
            # segment is what the property says opens a new repetition
            n = 1
            if mx != 1 and body[0][0] == 'SEG' and st.nrep < 2:
                card = [c[2] for c in cref[1] if c[0] == body[0][1] and c[3] == 'SEG']
                if card and card[0][1] == 1:
                    mode = st.reps[st.nrep]
                    st.nrep += 1
                    n = 1 if mode == 0 else 2
                    second = _clone(body)
                    if mode == 2:
                        # the second repetition leaves out its optional leading members: it then starts with another member, and
                        # when that one is a segment that may occur once the property still fixes where the repetition begins
                        optional = {c[0] for c in cref[1] if c[2][0] < 1}
                        k = 0
                        while k < len(second) and second[k][1] in optional:
                            k += 1
                        reduced = second[k:]
                        if k and reduced and reduced[0][0] == 'SEG' and \
                                [c[2][1] for c in cref[1] if c[0] == reduced[0][1] and c[3] == 'SEG'] == [1]:
                            second = reduced
            out.append(('GRP', name, body))
            for _ in range(n - 1):
                out.append(('GRP', name, second))
    return out


def _force_first(ref):
    """content for a required group whose members are all optional: its first member - a group with what THAT group requires"""
    for (name, cref, (mn, mx), kind) in ref[1]:
        if kind == 'SEG':
            return [('SEG', name)]
        inner = expand(cref, _State(0, (0, 0)), False) or _force_first(cref)
        if inner:
            return [('GRP', name, inner)]
    return []


def _first_member(ref):
    """(name, max) of the first child that is always emitted, if it is a segment"""
    for (name, cref, (mn, mx), kind) in ref[1]:
        if mn >= 1:
            return (name, mx) if kind == 'SEG' else None
        return None      # first child optional: repetition boundaries depend on choices -> do not repeat
    return None


def _has_segment(nodes):
    return any(n[0] == 'SEG' or _has_segment(n[2]) for n in nodes)


def _clone(nodes):
    return [n if n[0] == 'SEG' else ('GRP', n[1], _clone(n[2])) for n in nodes]


def flatten(nodes):
    out = []
    for n in nodes:
        if n[0] == 'SEG':
            out.append(n[1])
        else:
            out.extend(flatten(n[2]))
    return out


def real_tree(el):
    out = []
    for c in el.children:
        if c.classname == 'Segment':
            out.append(('SEG', c.name))
        else:
            out.append(('GRP', c.name, real_tree(c)))
    return out


def declared(el, ref, trace):
    """every child of el is a declared child of el in the structure"""
    decl = {c[0]: c for c in ref[1]}
    for c in el.children:
        if c.name not in decl:
            if trace is not None:
                trace.append('%r holds %r which its structure does not declare' % (el, c))
            return False
        want_kind = 'Segment' if decl[c.name][3] == 'SEG' else 'Group'
        if c.classname != want_kind:
            return False
        if c.classname == 'Group' and not declared(c, decl[c.name][1], trace):
            return False
    return True


def line(name, k):
    return '%s|%d' % (name, k)


def check(si, choice, trace=None):
    reset_defaults()
    v, mname = STRUCTS[si]
    ref = ref_of(v, mname)
    bits = choice // 9
    reps = ((choice % 9) % 3, (choice % 9) // 3)
    nodes = expand(ref, _State(bits, reps))
    names = flatten(nodes)
    mtype = mname.split('_')
    msh = 'MSH|^~\\&|A|B|||2020||%s^%s^%s|1|P|%s' % (mtype[0], mtype[1] if len(mtype) > 1 else '', mname, v)
    lines = [line(n, k + 1) for k, n in enumerate(names)]
    text = '\r'.join([msh] + lines)
    m = parse_message(text, validation_level=2, find_groups=True)
    got_tree = real_tree(m)
    got_flat = flatten(got_tree)
    ok_decl = declared(m, ref, trace)
    ok_flat = got_flat == ['MSH'] + names
    out = m.to_er7()
    ok_enc = out == text
    flat = parse_message(text, validation_level=2, find_groups=False).to_er7()
    ok_nogroups = flat == out
    # the same text under STRICT: group-finding itself must not be what refuses it, and when it is accepted the tree is the same
    ok_strict = True
    try:
        ms = parse_message(text, validation_level=1, find_groups=True)
        ok_strict = real_tree(ms) == got_tree
    except Exception as e:
        if type(e).__name__ == 'OperationNotAllowed' and ('validation_level' in str(e) or 'HL7 version' in str(e)):
            ok_strict = False
            if trace is not None:
                trace.append('STRICT parse raised %s: %s' % (type(e).__name__, e))
    allnames = seg_names(ref)
    # the instance's segment names each occur at a single place in the structure
    unique = all(allnames.count(n) == 1 for n in names)
    ok_tree = ok_valid = True
    if unique:
        ok_tree = got_tree == [('SEG', 'MSH')] + nodes
        rep = m.validate(return_errors=True)
        grp_err = [str(e) for e in rep.errors if _is_structural(str(e), mname)]
        ok_valid = not grp_err
        if trace is not None and grp_err:
            trace.append('structural validation errors: %r' % grp_err)
    if trace is not None:
        trace.append('%s %s choice %d (bits %s, reps %r) unique-names=%s\n  segments %r\n  expected tree %r\n  parsed tree   %r\n  declared=%s flat=%s re-encode=%s find_groups=False same=%s tree=%s validates(structure)=%s' % (
            v, mname, choice, bin(bits), reps, unique, names, [('SEG', 'MSH')] + nodes, got_tree, ok_decl, ok_flat, ok_enc, ok_nogroups,
            ok_tree, ok_valid))
    return ok_decl and ok_flat and ok_nogroups and ok_tree and ok_valid and ok_strict    # re-encoding == text is C01's subject


def _is_structural(err, m):
    """errors about the group structure (not about fields of a segment)"""
    if err.startswith('Invalid children detected for <Message') or err.startswith('Invalid children detected for <Group'):
        return True
    mm = re.match(r'(Missing required child|Child limit exceeded) ([A-Z0-9_]+)\.([A-Z0-9_]+)$', err)
    if mm:
        parent = mm.group(2)
        return parent == m or parent.startswith(m + '_')     # the message itself or one of its groups
    return False


def _ob_groups(si: int, choice: int) -> bool:
    """
    pre: 0 <= si < NS and 0 <= choice < NCHOICE
    pre: in_part(si * NCHOICE + choice)
    post: _
    """
    si, choice = bsearch(si, NS), bsearch(choice, NCHOICE)
    with concrete():
        return check(si, choice)


# ---- Z: a segment that has no place in the structure, anywhere in the instance ------------------------------------------------
ZBASES = [((1 << NBITS) - 1) * 9, 0, ((1 << NBITS) - 1) * 9 + 4]     # all optional children once / required only / all + both groups twice
ZMAXPOS = 14


def zcheck(si, base, pos, trace=None):
    """a Z segment inserted after the pos-th segment of an instance: it may end up anywhere in the tree, but flattening still gives
    the input sequence, the declared-child walk holds for everything else, and find_groups=False encodes identically"""
    reset_defaults()
    v, mname = STRUCTS[si]
    ref = ref_of(v, mname)
    choice = ZBASES[base]
    nodes = expand(ref, _State(choice // 9, ((choice % 9) % 3, (choice % 9) // 3)))
    names = flatten(nodes)
    if pos > len(names):
        return True
    names = names[:pos] + ['ZZZ'] + names[pos:]
    mtype = mname.split('_')
    msh = 'MSH|^~\\&|A|B|||2020||%s^%s^%s|1|P|%s' % (mtype[0], mtype[1] if len(mtype) > 1 else '', mname, v)
    text = '\r'.join([msh] + [line(n, k + 1) for k, n in enumerate(names)])
    m = parse_message(text, validation_level=2, find_groups=True)
    got = [ln[:3] for ln in m.to_er7().split('\r')[1:]]          # (segment names: what a line re-encodes to is C01's subject)
    want = list(names)
    flat = parse_message(text, validation_level=2, find_groups=False).to_er7()
    ok = got == want and flat == m.to_er7() and flatten(real_tree(m)) == ['MSH'] + names
    if trace is not None:
        trace.append('%s %s base %d, ZZZ after segment %d\n  input  %r\n  output %r\n  tree %r\n  find_groups=False encodes %r' % (
            v, mname, base, pos, want, got, real_tree(m), flat))
    return ok


def _ob_zseg(si: int, base: int, pos: int) -> bool:
    """
    pre: 0 <= si < NS and 0 <= base < 3 and 0 <= pos <= ZMAXPOS
    pre: in_part(si)
    post: _
    """
    si, base, pos = bsearch(si, NS), bsearch(base, 3), bsearch(pos, ZMAXPOS + 1)
    with concrete():
        return zcheck(si, base, pos)


# ---- T.refs: every row of every MESSAGES / GROUPS table of every version carries the reference group-finding needs ----------------
def _all_tables():
    out = []
    for v in T.VERSIONS:
        lib = T.LIBS[v]
        for name in sorted(lib.MESSAGES):
            out.append((v, 'MESSAGES', name))
        for name in sorted(lib.GROUPS):
            out.append((v, 'GROUPS', name))
    return out


TABLES = _all_tables()
NTAB = len(TABLES)


def table_ok(i, trace=None):
    v, kind, name = TABLES[i]
    lib = T.LIBS[v]
    ref = getattr(lib, kind)[name]
    bad = []
    for row in ref[1]:
        cname, cref, card, ck = row
        if ck == 'SEG':
            # (ANYHL7SEGMENT / ANY pseudo-entries have a reference of their own)
            if cref is None or (cname in lib.SEGMENTS and cref is not lib.SEGMENTS[cname] and cref != lib.SEGMENTS[cname]):
                bad.append('%s: segment row without / with a foreign reference' % cname)
        elif ck == 'GRP':
            if cref is None or cname not in lib.GROUPS or (cref is not lib.GROUPS[cname] and cref != lib.GROUPS[cname]):
                bad.append('%s: group row without / with a foreign reference' % cname)
        else:
            bad.append('%s: unknown row kind %r' % (cname, ck))
        if not (isinstance(card, tuple) and len(card) == 2 and card[0] >= 0 and (card[1] == -1 or card[1] >= card[0])):
            bad.append('%s: cardinality %r' % (cname, card))
    if trace is not None:
        trace.append('%s %s[%r]: %s' % (v, kind, name, bad or 'ok'))
    return not bad


def _ob_refs(i: int) -> bool:
    """
    pre: 0 <= i < NTAB
    pre: in_part(i)
    post: _
    """
    i = bsearch(i, NTAB)
    with concrete():
        return table_ok(i)


# ---- H: deterministic = independent of what the process parsed before -------------------------------------------------------
# The same structure / group NAME is defined differently by different versions.  For every ordered pair of versions whose
# definitions of one message structure differ in the segment set of some same-named group, the instance of the second version is
# parsed after the first one's in one (forked) process and must give the tree it gives in a process that parsed nothing else.
def _group_sets(ref, acc=None):
    acc = {} if acc is None else acc
    for (name, cref, card, kind) in ref[1]:
        if kind != 'SEG' and cref is not None:
            acc[name] = frozenset(seg_names(cref))
            _group_sets(cref, acc)
    return acc


def _usable(v, m):
    return m == m.upper() and all(n in T.SEGS[v] and T.seg_children(v, n) is not None for n in seg_names(T.LIBS[v].MESSAGES[m]))


def _hist_pairs():
    out = []
    names = sorted(set(m for v in T.VERSIONS for m in T.MSGS[v]))
    for m in names:
        vs = [v for v in T.VERSIONS if m in T.LIBS[v].MESSAGES and _usable(v, m)]
        sets = {v: _group_sets(T.LIBS[v].MESSAGES[m]) for v in vs}
        for a in vs:
            for b in vs:
                if a != b and any(g in sets[a] and sets[a][g] != sets[b][g] for g in sets[b]):
                    out.append((m, a, b))
    return out


HPAIRS = _hist_pairs()
NH = len(HPAIRS)
HCHOICES = [((1 << NBITS) - 1) * 9, 0]          # all optional children once / required only


def _instance_tree(v, mname, choice):
    ref = ref_of(v, mname)
    nodes = expand(ref, _State(choice // 9, ((choice % 9) % 3, (choice % 9) // 3)))
    names = flatten(nodes)
    mtype = mname.split('_')
    msh = 'MSH|^~\\&|A|B|||2020||%s^%s^%s|1|P|%s' % (mtype[0], mtype[1] if len(mtype) > 1 else '', mname, v)
    text = '\r'.join([msh] + [line(n, k + 1) for k, n in enumerate(names)])
    try:
        return real_tree(parse_message(text, validation_level=2, find_groups=True))
    except Exception as e:      # compared as a value: the same refusal in both processes is not this obligation's subject
        return 'raised %s: %s' % (type(e).__name__, e)


def hist_check(i, c, trace=None):
    m, va, vb = HPAIRS[i]
    choice = HCHOICES[c]
    alone = _forked(lambda: _instance_tree(vb, m, choice))
    after = _forked(lambda: (_instance_tree(va, m, choice), _instance_tree(vb, m, choice))[1])
    if trace is not None:
        trace.append('%s: version %s parsed after version %s in one process\n  tree after   %r\n  tree alone   %r' % (m, vb, va, after, alone))
    return after == alone


def _ob_hist(i: int, c: int) -> bool:
    """
    pre: 0 <= i < NH and 0 <= c < 2
    pre: in_part(i)
    post: _
    """
    i, c = bsearch(i, NH), bsearch(c, 2)
    with concrete():
        return hist_check(i, c)


def explain(call):
    m = re.match(r'(\w+)\((.*)\)$', call, re.S)
    a, kw = eval('(lambda *a, **k: (a, k))(%s)' % m.group(2))
    tr = []
    try:
        if m.group(1) == '_ob_refs':
            table_ok(a[0] if a else kw['i'], tr)
            return '\n'.join(tr)
        if m.group(1) == '_ob_hist':
            v = dict(zip(['i', 'c'], a)); v.update(kw)
            hist_check(v['i'], v['c'], tr)
            return '\n'.join(tr)
        if m.group(1) == '_ob_zseg':
            v = dict(zip(['si', 'base', 'pos'], a)); v.update(kw)
            zcheck(v['si'], v['base'], v['pos'], tr)
            return '\n'.join(tr)
        v = dict(zip(['si', 'choice'], a)); v.update(kw)
        check(v['si'], v['choice'], tr)
    except Exception as e:
        tr.append('raised %s: %s' % (type(e).__name__, e))
    return '\n'.join(tr)


SPEC = {
    'property': 'C08',
    'files': ['hl7apy/parser.py', 'hl7apy/core.py'],
    'functions_encoded': ['hl7apy.parser.parse_segments/_get_segment_reference', 'hl7apy.core.Group.__init__/add/_get_children/to_er7',
                          'hl7apy.core.Message', 'hl7apy.validation.Validator.validate (structure part)'],
    'assumptions': ['TOLERANT level; minimal segment lines "SEG|n"; the validation claim is restricted to structural errors '
                    '(missing / exceeding / undeclared children of the message and of groups)',
                    'instances: presence bit for each of the first %d optional children in depth-first order (later optional '
                    'children absent), repetition 1..2 for the first two repeatable groups whose first member is required and '
                    'non-repeatable (otherwise the property does not fix where a repetition starts)' % NBITS,
                    'structure index and choice index are symbolic and exhausted by CrossHair/z3; each instance then runs concretely'],
    'outside': ['structures outside the slice (%d of ~2000; thorough adds a seeded sample); instances outside the choice space' % NS],
    'stubs': [],
    'obligations': [
        {'name': 'groups', 'fn': '_ob_groups', 'parts': 32, 'cond_timeout': {'quick': 900, 'thorough': 3000}, 'path_timeout': 60,
         'bound': '%d message structures x %d instances each (2^%d presence choices x 9 repetition choices: once / twice / twice with a shortened second repetition, for two groups)' % (NS, NCHOICE, NBITS)},
        {'name': 'T.refs', 'fn': '_ob_refs', 'parts': 8, 'cond_timeout': 900, 'path_timeout': 60,
         'bound': 'ALL %d MESSAGES / GROUPS tables of the 12 versions: every segment row references SEGMENTS[name], every group row '
                  'GROUPS[name] (group-finding reads a None reference as "not found"), cardinalities well formed' % NTAB},
        {'name': 'H.hist', 'fn': '_ob_hist', 'parts': 16, 'cond_timeout': 900, 'path_timeout': 60,
         'bound': 'ALL %d ordered pairs of versions whose definitions of one message structure '
                  'differ in the segment set of a same-named group x 2 instances: the second version parsed after the first in one '
                  'forked process gives the tree it gives in a fresh forked process' % NH},
        {'name': 'zseg', 'fn': '_ob_zseg', 'parts': 16, 'cond_timeout': {'quick': 900, 'thorough': 3000}, 'path_timeout': 60,
         'bound': '%d structures x 3 instances x a Z segment inserted after each of the first %d segments: flattening gives the input '
                  'sequence, find_groups=False encodes identically' % (NS, ZMAXPOS)},
    ],
}
