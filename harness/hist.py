"""Bounded API histories on real hl7apy elements, with a plain list model (shared by C09, C10, C12, C05).

A history is a tuple of small integers; each integer is an *action index* that is decoded into
(op, child name, repetition index).  Under CrossHair every action index is symbolic and is concretised by a
fork-per-value loop, so one execution path = one concrete history and the solver's exhaustion verdict is
"every history of that length over the action alphabet".

Targets
  'seg'  Segment PID (v2.5): children PID_3 (CX, repeatable), PID_5 (XPN, repeatable), PID_8 (IS)
  'msg'  Message ADT_A01 (v2.5): children NK1, OBX (repeatable), AL1 between fixed MSH/EVN/PID/PV1
  'fld'  Field PID_5 (XPN): components XPN_1 (FN, complex), XPN_2 (ST), XPN_7 (ID)

The reference model holds an ordered list of (name, token) entries (insertion order) - per-name repetition lists
are its projections.  Expected encodings are produced by reference builders written here (no hl7apy logic).
"""
from vlib.chglue import reset_defaults
from hl7apy.core import Message, Segment, Field, Component, SubComponent, Group
from hl7apy.parser import parse_segment, parse_message, parse_field

# ---- op codes ------------------------------------------------------------------------------------------
NOP, SET, ADD, IDX, DELI, SETLONG, ADDH, DELN, REM, COPY, SETELEM = range(11)
OPNAMES = ['nop', 'set-by-name', 'add(elem)', 'proxy[i]=v', 'del proxy[i]', 'set-by-long-name', 'add_<child>()+value',
           'del by name', 'children.remove', 'copy from other element', 'set-by-name(elem)']
CORE_OPS = [SET, ADD, IDX, DELI]
FULL_OPS = [SET, ADD, IDX, DELI, SETLONG, ADDH, DELN, REM, COPY, SETELEM]

TARGETS = {
    'seg': dict(names=['PID_3', 'PID_5', 'PID_8'], longs=['PATIENT_IDENTIFIER_LIST', 'PATIENT_NAME', 'ADMINISTRATIVE_SEX']),
    'msg': dict(names=['NK1', 'OBX', 'AL1'], longs=[None, None, None]),
    'fld': dict(names=['XPN_1', 'XPN_2', 'XPN_7'], longs=['FAMILY_NAME', 'GIVEN_NAME', 'NAME_TYPE_CODE']),
}
NIDX = 3  # repetition indices 0..2


def actions(target, ops):
    """the action alphabet: list of (op, name_index, rep_index); index 0 is the no-op"""
    acts = [(NOP, 0, 0)]
    nn = len(TARGETS[target]['names'])
    for op in ops:
        for n in range(nn):
            if op == SETLONG and TARGETS[target]['longs'][n] is None:
                continue
            if op in (IDX, DELI, REM):
                for i in range(NIDX):
                    acts.append((op, n, i))
            else:
                acts.append((op, n, 0))
    return acts


def concretize(p, n):
    for q in range(n):
        if p == q:
            return q
    return n


# ---- building the initial state ---------------------------------------------------------------------------
def tok(step):
    return 'V%d' % step


def make(target, init, level):
    """returns (element, model) ; model = list of (name, token)"""
    if target == 'seg':
        if init == 0:
            return Segment('PID', version='2.5', validation_level=level), []
        if init == 1:
            s = parse_segment('PID|||A~B~C||D~E', version='2.5', validation_level=level)
            return s, [('PID_3', 'A'), ('PID_3', 'B'), ('PID_3', 'C'), ('PID_5', 'D'), ('PID_5', 'E')]
        s = Segment('PID', version='2.5', validation_level=level)
        s.pid_5 = 'D'
        s.pid_3 = 'A'
        f = Field('PID_3', version='2.5', validation_level=level)
        f.value = 'B'
        s.add(f)
        s.pid_8 = 'F'
        return s, [('PID_5', 'D'), ('PID_3', 'A'), ('PID_3', 'B'), ('PID_8', 'F')]
    if target == 'fld':
        if init == 0:
            return Field('PID_5', version='2.5', validation_level=level), []
        f = parse_field('A^B^^^^^L', name='PID_5', version='2.5', validation_level=level)
        return f, [('XPN_1', 'A'), ('XPN_2', 'B'), ('XPN_7', 'L')]
    if target == 'msg':
        m = Message('ADT_A01', version='2.5', validation_level=level)
        m.msh.msh_7 = '2020'
        m.msh.msh_9 = 'ADT^A01^ADT_A01'
        m.msh.msh_10 = '1'
        m.msh.msh_11 = 'P'
        m.evn = 'EVN||2020'
        m.pid = 'PID|||1||S'
        model = [('EVN', 'EVN||2020'), ('PID', 'PID|||1||S')]
        if init >= 1:
            m.nk1 = 'NK1|a'
            m.add(parse_segment('NK1|b', version='2.5', validation_level=level))
            model += [('NK1', 'NK1|a'), ('NK1', 'NK1|b')]
        m.pv1 = 'PV1||I'
        model += [('PV1', 'PV1||I')]
        if init >= 1:
            m.obx = 'OBX|c'
            m.al1 = 'AL1|d'
            model += [('OBX', 'OBX|c'), ('AL1', 'AL1|d')]
        return m, model
    raise ValueError(target)


def _child_text(target, name, token):
    if target == 'msg':
        return '%s|%s' % (name, token)
    return token


def _new_child(target, name, token, level, parent=None):
    if target == 'seg':
        f = Field(name, version='2.5', validation_level=level)
        f.value = token
        return f
    if target == 'fld':
        c = Component(name, version='2.5', validation_level=level)
        c.value = token
        return c
    return parse_segment('%s|%s' % (name, token), version='2.5', validation_level=level)


def _other(target, level):
    if target == 'seg':
        return parse_segment('PID|||P~Q||R~S|||T', version='2.5', validation_level=level), \
            {'PID_3': 'P', 'PID_5': 'R', 'PID_8': 'T'}
    if target == 'fld':
        return parse_field('P^Q^^^^^R', name='PID_5', version='2.5', validation_level=level), \
            {'XPN_1': 'P', 'XPN_2': 'Q', 'XPN_7': 'R'}
    m = parse_message('MSH|^~\\&|||||2020||ADT^A01^ADT_A01|2|P|2.5\rEVN||2020\rPID|||2||T\rNK1|p\rNK1|q\rPV1||O\rOBX|r\rAL1|s',
                      validation_level=level, find_groups=False)
    return m, {'NK1': 'NK1|p', 'OBX': 'OBX|r', 'AL1': 'AL1|s'}


# ---- one step: real element and model --------------------------------------------------------------------------
def apply_real(target, el, act, step, level):
    """perform the action on the real element; raises whatever hl7apy raises"""
    op, n, i = act
    name = TARGETS[target]['names'][n]
    t = _child_text(target, name, tok(step))
    if op == NOP:
        return
    if op == SET:
        setattr(el, name.lower(), t)
    elif op == SETLONG:
        setattr(el, TARGETS[target]['longs'][n].lower(), t)
    elif op == ADD:
        el.add(_new_child(target, name, tok(step), level))
    elif op == ADDH:
        if target == 'seg':
            c = el.add_field(name)
            c.value = t
        elif target == 'fld':
            c = el.add_component(name)
            c.value = t
        else:
            c = el.add_segment(name)
            setattr(c, '%s_1' % name.lower(), tok(step))
    elif op == IDX:
        getattr(el, name.lower())[i] = t
    elif op == DELI:
        del getattr(el, name.lower())[i]
    elif op == DELN:
        delattr(el, name.lower())
    elif op == REM:
        el.children.remove(getattr(el, name.lower())[i])
    elif op == COPY:
        other, _ = _other(target, level)
        setattr(el, name.lower(), getattr(other, name.lower()))
    elif op == SETELEM:
        setattr(el, name.lower(), _new_child(target, name, tok(step), level))
    else:
        raise ValueError(op)


def apply_model(target, model, act, step, level):
    """returns the new model, or None when the reference semantics say the op must be refused (absent index)"""
    op, n, i = act
    name = TARGETS[target]['names'][n]
    t = _child_text(target, name, tok(step))
    mine = [k for k, (nm, _) in enumerate(model) if nm == name]
    model = list(model)
    if op == NOP:
        return model
    if op in (SET, SETLONG, SETELEM, COPY):
        if op == COPY:
            t = _other_values(target)[name]
        if mine:
            model[mine[0]] = (name, t)
        else:
            model.append((name, t))
    elif op in (ADD, ADDH):
        model.append((name, t))
    elif op == IDX:
        if i < len(mine):
            model[mine[i]] = (name, t)
        else:
            model.append((name, t))
    elif op in (DELI, REM):
        if i < len(mine):
            del model[mine[i]]
        else:
            return None
    elif op == DELN:
        if mine:
            del model[mine[0]]
        else:
            return None
    return model


_OTHER_VALUES = {'seg': {'PID_3': 'P', 'PID_5': 'R', 'PID_8': 'T'},
                 'fld': {'XPN_1': 'P', 'XPN_2': 'Q', 'XPN_7': 'R'},
                 'msg': {'NK1': 'NK1|p', 'OBX': 'OBX|r', 'AL1': 'AL1|s'}}


def _other_values(target):
    return _OTHER_VALUES[target]


# ---- reference encoders ------------------------------------------------------------------------------------
def expected_er7(target, model):
    if target == 'seg':
        pos = {}
        for nm, t in model:
            pos.setdefault(int(nm.split('_')[1]), []).append(t)
        if not pos:
            return 'PID'
        last = max(pos)
        return '|'.join(['PID'] + ['~'.join(pos.get(k, [])) for k in range(1, last + 1)])
    if target == 'fld':
        pos = {}
        for nm, t in model:
            pos.setdefault(int(nm.split('_')[1]), []).append(t)
        if not pos:
            return ''
        last = max(pos)
        # a component cannot repeat inside a field: repetitions of one component name are emitted one after the
        # other at that position (that is what hl7apy's Element.to_er7 does with a list of repetitions)
        out = []
        for k in range(1, last + 1):
            out.extend(pos.get(k, ['']))
        return '^'.join(out)
    lines = ['MSH|^~\\&|||||2020||ADT^A01^ADT_A01|1|P|2.5'] + [t for _, t in model]
    return '\r'.join(lines)


def decode(target, ops, a):
    acts = actions(target, ops)
    return acts[a]


def describe(target, act, step):
    op, n, i = act
    return '%s %s[%d] <- %s' % (OPNAMES[op], TARGETS[target]['names'][n], i, tok(step))
