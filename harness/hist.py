"""Bounded API histories on real hl7apy elements, with a plain list model (shared by C09, C10, C12, C05).

A history is a tuple of small integers; each integer is an *action index* that is decoded into
(op, child name, repetition index).  Under CrossHair every action index is symbolic and is concretised by a
fork-per-value loop, so one execution path = one concrete history and the solver's exhaustion verdict is
"every history of that length over the action alphabet".

Targets
  'seg'  Segment PID (v2.5): children PID_3 (CX, repeatable), PID_5 (XPN, repeatable), PID_8 (IS)
  'msg'  Message ADT_A01 (v2.5): children NK1, OBX (repeatable), AL1 between fixed MSH/EVN/PID/PV1
  'fld'  Field PID_5 (XPN): components XPN_1 (FN, complex), XPN_2 (ST), XPN_7 (ID)

The reference model holds an ordered list of (name, token) entries (insertion order) - per-name repetition lists
are its projections.  Expected encodings are produced by reference builders written here (no hl7apy logic).
"""
from vlib.chglue import reset_defaults
from hl7apy.core import Message, Segment, Field, Component, SubComponent, Group
from hl7apy.parser import parse_segment, parse_message, parse_field

# ---- op codes ------------------------------------------------------------------------------------------
(NOP, SET, ADD, IDX, DELI, SETLONG, ADDH, DELN, REM, COPY, SETELEM,
 REATTACH, WRONGCLS, OTHERVER, OTHERLVL, SETWRONG, READ, SETBADVAL, IDXELEMLVL, SETELEMVER, DTCHANGE,
 NESTED, REATTACHBAD, SETDT, SETVALUE, PROXYVAL, SETDTOK, DELCH, SETCH, COPYEC, MOVE, POPINS) = range(32)
OPNAMES = ['nop', 'set-by-name', 'add(elem)', 'proxy[i]=v', 'del proxy[i]', 'set-by-long-name', 'add_<child>()+value',
           'del by name', 'children.remove', 'copy from other element', 'set-by-name(elem)',
           'other.add(child of target)', 'add(elem of wrong class)', 'add(elem of other version)',
           'add(elem of other validation level)', 'set-by-name(elem with another name)', 'read-only traversal',
           'set-by-name(invalid value)', 'proxy[i]=elem of other validation level', 'set-by-name(elem of other version)',
           'change datatype of populated child', 'nested set through the proxy (el.child.sub = v)',
           'other-level element .add(child of target)', 'set-by-name(base datatype object)',
           'el.value = text with a repeated non-repeatable child', 'el.child.value = value invalid under STRICT',
           'set-by-name(base datatype object of the child\'s own datatype)', 'del el.children[position of the i-th child of that name]',
           'el.children[position of the i-th child of that name] = v',
           'copy from an element of a message with other encoding characters',
           'proxy[i] = proxy[i+1] (a child assigned to another place of the same parent)',
           'c = el.children.pop(k); el.children.insert(k, c) (k = position of the i-th child of that name)']
CORE_OPS = [SET, ADD, IDX, DELI]
FULL_OPS = [SET, ADD, IDX, DELI, SETLONG, ADDH, DELN, REM, COPY, SETELEM, NESTED, SETDTOK, DELCH, SETCH, COPYEC, MOVE, POPINS]
# operations that are meant to be refused (or that stress attachment) - used by C10 / C12
REJECT_OPS = [REATTACH, WRONGCLS, OTHERVER, OTHERLVL, SETWRONG, READ, SETBADVAL, IDXELEMLVL, SETELEMVER, DTCHANGE, REATTACHBAD,
              SETDT, SETVALUE, PROXYVAL]

TARGETS = {
    'seg': dict(names=['PID_3', 'PID_5', 'PID_8'], longs=['PATIENT_IDENTIFIER_LIST', 'PATIENT_NAME', 'ADMINISTRATIVE_SEX'],
                nested=['cx_1', 'xpn_1', None], dtobj=[None, None, 'IS']),
    'msg': dict(names=['NK1', 'OBX', 'AL1'], longs=[None, None, None], nested=['nk1_1', 'obx_1', 'al1_1'], dtobj=[None, None, None]),
    'fld': dict(names=['XPN_1', 'XPN_2', 'XPN_7'], longs=['FAMILY_NAME', 'GIVEN_NAME', 'NAME_TYPE_CODE'],
                nested=['fn_1', None, None], dtobj=[None, 'ST', 'ID']),
}
NIDX = 3  # repetition indices 0..2


def actions(target, ops, names=None, nidx=None):
    """the action alphabet: list of (op, name_index, rep_index); index 0 is the no-op.
    `names` restricts the child names used (indices into TARGETS[target]['names']), `nidx` the repetition indices"""
    acts = [(NOP, 0, 0)]
    nn = len(TARGETS[target]['names'])
    if nidx is None:
        nidx = NIDX
    for op in ops:
        for n in range(nn):
            if names is not None and n not in names:
                continue
            if op == SETLONG and TARGETS[target]['longs'][n] is None:
                continue
            if op == NESTED and TARGETS[target]['nested'][n] is None:
                continue
            if op == SETDTOK and TARGETS[target]['dtobj'][n] is None:
                continue
            if op == COPYEC and target == 'fld':
                continue        # (a lone field has no message to take other delimiters from)
            if op in (WRONGCLS, READ, SETVALUE) and n != (names[0] if names else 0):
                continue   # the child name is irrelevant for these
            if op in (MOVE, POPINS):
                for i in range(2):
                    acts.append((op, n, i))
                continue
            if op in (IDX, DELI, REM, REATTACH, IDXELEMLVL, REATTACHBAD, DELCH, SETCH):
                for i in range(nidx if op not in (REATTACH, REATTACHBAD) else 2):
                    acts.append((op, n, i))
            else:
                acts.append((op, n, 0))
    return acts


def concretize(p, n):
    for q in range(n):
        if p == q:
            return q
    return n


# ---- building the initial state ---------------------------------------------------------------------------
def tok(step):
    return 'V%d' % step


def make(target, init, level):
    """returns (element, model) ; model = list of (name, token)"""
    if target == 'seg':
        if init == 0:
            return Segment('PID', version='2.5', validation_level=level), []
        if init == 1:
            s = parse_segment('PID|||A~B~C||D~E', version='2.5', validation_level=level)
            return s, [('PID_3', 'A'), ('PID_3', 'B'), ('PID_3', 'C'), ('PID_5', 'D'), ('PID_5', 'E')]
        s = Segment('PID', version='2.5', validation_level=level)
        s.pid_5 = 'D'
        s.pid_3 = 'A'
        f = Field('PID_3', version='2.5', validation_level=level)
        f.value = 'B'
        s.add(f)
        s.pid_8 = 'F'
        return s, [('PID_5', 'D'), ('PID_3', 'A'), ('PID_3', 'B'), ('PID_8', 'F')]
    if target == 'fld':
        if init == 0:
            return Field('PID_5', version='2.5', validation_level=level), []
        f = parse_field('A^B^^^^^L', name='PID_5', version='2.5', validation_level=level)
        return f, [('XPN_1', 'A'), ('XPN_2', 'B'), ('XPN_7', 'L')]
    if target == 'msg':
        m = Message('ADT_A01', version='2.5', validation_level=level)
        m.msh.msh_7 = '2020'
        m.msh.msh_9 = 'ADT^A01^ADT_A01'
        m.msh.msh_10 = '1'
        m.msh.msh_11 = 'P'
        m.evn = 'EVN||2020'
        m.pid = 'PID|||1||S'
        model = [('EVN', 'EVN||2020'), ('PID', 'PID|||1||S')]
        if init >= 1:
            m.nk1 = 'NK1|1'
            m.add(parse_segment('NK1|2', version='2.5', validation_level=level))
            model += [('NK1', 'NK1|1'), ('NK1', 'NK1|2')]
        m.pv1 = 'PV1||I'
        model += [('PV1', 'PV1||I')]
        if init >= 1:
            m.obx = 'OBX|3'
            m.al1 = 'AL1|4'
            model += [('OBX', 'OBX|3'), ('AL1', 'AL1|4')]
        return m, model
    raise ValueError(target)


def _child_text(target, name, token):
    if target == 'msg':   # the first field of NK1/OBX/AL1 is an SI: numeric tokens are valid under STRICT too
        return '%s|%s' % (name, token.replace('V', '1'))
    return token


def _new_child(target, name, token, level, parent=None):
    if target == 'seg':
        f = Field(name, version='2.5', validation_level=level)
        f.value = token
        return f
    if target == 'fld':
        c = Component(name, version='2.5', validation_level=level)
        c.value = token
        return c
    return parse_segment(_child_text('msg', name, token), version='2.5', validation_level=level)


def _other(target, level):
    if target == 'seg':
        return parse_segment('PID|||P~Q||R~S|||T', version='2.5', validation_level=level), \
            {'PID_3': 'P', 'PID_5': 'R', 'PID_8': 'T'}
    if target == 'fld':
        return parse_field('P^Q^^^^^R', name='PID_5', version='2.5', validation_level=level), \
            {'XPN_1': 'P', 'XPN_2': 'Q', 'XPN_7': 'R'}
    m = parse_message('MSH|^~\\&|||||2020||ADT^A01^ADT_A01|2|P|2.5\rEVN||2020\rPID|||2||T\rNK1|5\rNK1|6\rPV1||O\rOBX|7\rAL1|8',
                      validation_level=level, find_groups=False)
    return m, {'NK1': 'NK1|5', 'OBX': 'OBX|7', 'AL1': 'AL1|8'}


_OTHER_VALUES_EC = {'seg': {'PID_3': 'P', 'PID_5': 'R&U', 'PID_8': 'T'},
                    'msg': {'NK1': 'NK1|5', 'OBX': 'OBX|7', 'AL1': 'AL1|8'}}


def _other_ec(target, level):
    """source of a copy: the same kind of element inside a message that declares OTHER encoding characters (! @ % ? $)"""
    m = parse_message('MSH!@%?$!!!!!2020!!ADT@A01@ADT_A01!2!P!2.5\rEVN!!2020\rPID!!!P%Q!!R$U%S!!!T\rNK1!5\rNK1!6\rPV1!!O\rOBX!7\rAL1!8',
                      validation_level=level, find_groups=False)
    return m.pid[0] if target == 'seg' else m


# ---- one step: real element and model --------------------------------------------------------------------------
def apply_real(target, el, act, step, level, other=None, offered=None, otherbad=None):
    """perform the action on the real element; raises whatever hl7apy raises.
    `other` is a second element of the same kind (for re-attachment); `offered` (a list) receives the child object
    that was offered to the target, if the action offers one"""
    op, n, i = act
    name = TARGETS[target]['names'][n]
    t = _child_text(target, name, tok(step))
    if offered is None:
        offered = []
    olevel = 1 if level == 2 else 2
    if op == NOP:
        return
    if op == REATTACH:
        c = getattr(el, name.lower())[i]
        other.add(c)
        return
    if op == REATTACHBAD:
        c = getattr(el, name.lower())[i]
        otherbad.add(c)
        return
    if op == SETDT:
        from hl7apy.base_datatypes import ST
        setattr(el, name.lower(), ST(tok(step)))
        return
    if op == SETDTOK:
        import hl7apy.base_datatypes as bd
        setattr(el, name.lower(), getattr(bd, TARGETS[target]['dtobj'][n])(tok(step)))
        return
    if op == SETVALUE:
        # whole-value assignment whose text repeats a child that may occur once (refused under STRICT)
        if target == 'seg':
            el.value = 'PID|1~2||%s' % tok(step)
        elif target == 'fld':
            el.value = '%s^x' % tok(step)
        else:
            el.value = 'MSH|^~\\&|||||2020||ADT^A01^ADT_A01|1|P|2.5\rEVN||2020\rEVN||2021\rPID|||9||S'
        return
    if op == PROXYVAL:
        # value assigned at the end of a traversal chain; invalid for the datatype under STRICT
        if target == 'seg':
            getattr(el, ['pid_7', 'pid_29', 'pid_33'][n]).value = 'notadate'
        elif target == 'fld':
            getattr(el, name.lower()).value = 'a&b&c&d&e&f&g&h&i&j&k&l&m'
        else:
            getattr(el, ['pv2', 'evn', 'pd1'][n]).value = 'XXX|1'
        return
    if op == NESTED:
        # assignment through the (possibly empty) proxy: creates the child lazily, or edits the first repetition
        setattr(getattr(el, name.lower()), TARGETS[target]['nested'][n], tok(step).replace('V', '1') if target == 'msg' else tok(step))
        return
    if op == WRONGCLS:
        c = Segment('PID', version='2.5', validation_level=level) if target != 'msg' else \
            Field('PID_3', version='2.5', validation_level=level)
        offered.append(c)
        el.add(c)
        return
    if op in (OTHERVER, SETELEMVER):
        if target == 'seg':
            c = Field(name, version='2.4', validation_level=level)
            c.value = tok(step)
        elif target == 'fld':
            c = Component(name, version='2.4', validation_level=level)
            c.value = tok(step)
        else:
            c = parse_segment(t, version='2.4', validation_level=level)
        offered.append(c)
        if op == OTHERVER:
            el.add(c)
        else:
            setattr(el, name.lower(), c)
        return
    if op in (OTHERLVL, IDXELEMLVL):
        c = _new_child(target, name, tok(step), olevel)
        offered.append(c)
        if op == OTHERLVL:
            el.add(c)
        else:
            getattr(el, name.lower())[i] = c
        return
    if op == SETWRONG:
        wrong = TARGETS[target]['names'][(n + 1) % len(TARGETS[target]['names'])]
        c = _new_child(target, wrong, tok(step), level)
        offered.append(c)
        setattr(el, name.lower(), c)
        return
    if op == READ:
        if target == 'seg':
            getattr(el, name.lower())
            el.pid_7.ts_1.value
            el.pid_11.xad_1.sad_1
        elif target == 'fld':
            el.xpn_1.fn_1.value
        else:
            getattr(el, name.lower())
            el.pv2.pv2_3.ce_1
            el.adt_a01_insurance.in1.in1_2
        return
    if op == SETBADVAL:
        # a value that STRICT refuses for the child (a second repetition separator inside / an invalid date)
        if target == 'seg':
            el.pid_7 = 'notadate' if n == 0 else ('2020^x^y' if n == 1 else '20201399')
        elif target == 'fld':
            setattr(el, name.lower(), 'a&b&c&d&e&f&g&h&i&j')
        else:
            setattr(el, name.lower(), '%s|%s|||||||||||||||||||||||||||||||||||||||||||||||||||x' % (name, tok(step)))
        return
    if op == DTCHANGE:
        if target == 'seg':
            getattr(el, name.lower())[0].datatype = 'CE'
        elif target == 'fld':
            getattr(el, name.lower())[0].datatype = 'CE'
        else:
            getattr(el, name.lower())[0].children[0].datatype = 'CE'
        return
    if op == SET:
        setattr(el, name.lower(), t)
    elif op == SETLONG:
        setattr(el, TARGETS[target]['longs'][n].lower(), t)
    elif op == ADD:
        c = _new_child(target, name, tok(step), level)
        offered.append(c)
        el.add(c)
    elif op == ADDH:
        if target == 'seg':
            c = el.add_field(name)
            c.value = t
        elif target == 'fld':
            c = el.add_component(name)
            c.value = t
        else:
            c = el.add_segment(name)
            setattr(c, '%s_1' % name.lower(), tok(step).replace('V', '1'))
    elif op == IDX:
        getattr(el, name.lower())[i] = t
    elif op == DELI:
        del getattr(el, name.lower())[i]
    elif op == DELCH:
        at = [k for k, c in enumerate(el.children) if c.name == name]
        del el.children[at[i]]
    elif op == SETCH:
        at = [k for k, c in enumerate(el.children) if c.name == name]
        el.children[at[i]] = t
    elif op == MOVE:
        p = getattr(el, name.lower())
        p[i] = p[i + 1]
    elif op == POPINS:
        at = [k for k, c in enumerate(el.children) if c.name == name]
        c = el.children.pop(at[i])
        el.children.insert(at[i], c)
    elif op == DELN:
        delattr(el, name.lower())
    elif op == REM:
        el.children.remove(getattr(el, name.lower())[i])
    elif op == COPY:
        src, _ = _other(target, level)
        setattr(el, name.lower(), getattr(src, name.lower()))
    elif op == COPYEC:
        src = _other_ec(target, level)
        setattr(el, name.lower(), getattr(src, name.lower()))
    elif op == SETELEM:
        c = _new_child(target, name, tok(step), level)
        offered.append(c)
        setattr(el, name.lower(), c)
    else:
        raise ValueError(op)


def apply_model(target, model, act, step, level):
    """returns the new model, or None when the reference semantics say the op must be refused (absent index)"""
    op, n, i = act
    name = TARGETS[target]['names'][n]
    t = _child_text(target, name, tok(step))
    mine = [k for k, (nm, _) in enumerate(model) if nm == name]
    model = list(model)
    if op == NOP:
        return model
    if op in (SET, SETLONG, SETELEM, COPY, NESTED, SETDTOK, COPYEC):
        if op == COPY:
            t = _other_values(target)[name]
        if op == COPYEC:
            t = _OTHER_VALUES_EC[target][name]
        if mine:
            model[mine[0]] = (name, t)
        else:
            model.append((name, t))
    elif op in (ADD, ADDH):
        model.append((name, t))
    elif op == IDX:
        if i < len(mine):
            model[mine[i]] = (name, t)
        else:
            model.append((name, t))
    elif op == SETCH:
        if i < len(mine):
            model[mine[i]] = (name, t)
        else:
            return None
    elif op == MOVE:
        if i + 1 < len(mine):
            model[mine[i]] = model[mine[i + 1]]
            del model[mine[i + 1]]
        else:
            return None
    elif op == POPINS:
        if i >= len(mine):
            return None
    elif op in (DELI, REM, DELCH):
        if i < len(mine):
            del model[mine[i]]
        else:
            return None
    elif op == DELN:
        if mine:
            del model[mine[0]]
        else:
            return None
    return model


_OTHER_VALUES = {'seg': {'PID_3': 'P', 'PID_5': 'R', 'PID_8': 'T'},
                 'fld': {'XPN_1': 'P', 'XPN_2': 'Q', 'XPN_7': 'R'},
                 'msg': {'NK1': 'NK1|5', 'OBX': 'OBX|7', 'AL1': 'AL1|8'}}


def _other_values(target):
    return _OTHER_VALUES[target]


# ---- reference encoders ------------------------------------------------------------------------------------
def expected_er7(target, model):
    if target == 'seg':
        pos = {}
        for nm, t in model:
            pos.setdefault(int(nm.split('_')[1]), []).append(t)
        if not pos:
            return 'PID'
        last = max(pos)
        return '|'.join(['PID'] + ['~'.join(pos.get(k, [])) for k in range(1, last + 1)])
    if target == 'fld':
        pos = {}
        for nm, t in model:
            pos.setdefault(int(nm.split('_')[1]), []).append(t)
        if not pos:
            return ''
        last = max(pos)
        # a component cannot repeat inside a field: repetitions of one component name are emitted one after the
        # other at that position (that is what hl7apy's Element.to_er7 does with a list of repetitions)
        out = []
        for k in range(1, last + 1):
            out.extend(pos.get(k, ['']))
        return '^'.join(out)
    lines = ['MSH|^~\\&|||||2020||ADT^A01^ADT_A01|1|P|2.5'] + [t for _, t in model]
    return '\r'.join(lines)


def decode(target, ops, a):
    acts = actions(target, ops)
    return acts[a]


def describe(target, act, step):
    op, n, i = act
    return '%s %s[%d] <- %s' % (OPNAMES[op], TARGETS[target]['names'][n], i, tok(step))


# ---- observers (read private attributes of ElementList; they never write) ------------------------------------------
def _walk(el, seen=None):
    yield el
    for c in list(el.children.list):
        for x in _walk(c):
            yield x


def check_tree(roots):
    """C10 invariant over one or more trees.  Returns None when consistent, else a description."""
    listed_by = {}
    for root in roots:
        for e in _walk(root):
            if e.__class__.__name__ == 'SubComponent':
                continue
            ch = e.children
            lst = ch.list
            # parent pointers, single listing, one version / level per tree
            for k, c in enumerate(lst):
                if c.parent is not e:
                    return '%r lists %r whose parent is %r' % (e, c, c.parent)
                if id(c) in listed_by:
                    return '%r is listed by both %r and %r' % (c, listed_by[id(c)], e)
                listed_by[id(c)] = e
                if c.version != e.version:
                    return '%r (version %s) has child %r of version %s' % (e, e.version, c, c.version)
                if c.validation_level != e.validation_level:
                    return '%r (level %s) has child %r of level %s' % (e, e.validation_level, c, c.validation_level)
            # by-name index == projection of the list, in order
            names = []
            for c in lst:
                if c.name not in names:
                    names.append(c.name)
            for nm in names:
                proj = [c for c in lst if c.name == nm]
                idx = ch.indexes.get(nm, [])
                if len(idx) != len(proj) or any(a is not b for a, b in zip(idx, proj)):
                    return '%r: by-name index of %s is %r but the list holds %r' % (e, nm, idx, proj)
            for nm, idx in ch.indexes.items():
                for c in idx:
                    if not any(c is x for x in lst):
                        return '%r: by-name index of %s holds %r which is not in the list' % (e, nm, c)
            for nm, tl in ch.traversal_indexes.items():
                for c in tl:
                    if any(c is x for x in lst):
                        return '%r: traversal child %r is also a real child' % (e, c)
                    if c.traversal_parent is not e:
                        return '%r: traversal child %r has traversal parent %r' % (e, c, c.traversal_parent)
            # the public views agree
            if len(ch) != len(lst):
                return '%r: len(children) %d != %d' % (e, len(ch), len(lst))
            it = list(iter(ch))
            if len(it) != len(lst) or any(a is not b for a, b in zip(it, lst)):
                return '%r: iteration %r differs from list %r' % (e, it, lst)
            for k, c in enumerate(lst):
                if ch[k] is not c:
                    return '%r: children[%d] is not the listed child' % (e, k)
                if c not in ch:
                    return '%r: listed child %r not "in" children' % (e, c)
            for nm in names:
                if nm is None:
                    continue
                try:
                    proxy = ch.get(nm)
                except Exception as ex:  # lookup by name of a listed child must work
                    return '%r: lookup of listed child name %s raised %r' % (e, nm, ex)
                proj = [c for c in lst if c.name == nm]
                got = list(proxy) if proxy is not None else []
                if len(got) != len(proj) or any(a is not b for a, b in zip(got, proj)):
                    return '%r: lookup by name %s gives %r, list holds %r' % (e, nm, got, proj)
                if len(proxy) != len(proj):
                    return '%r: len(proxy %s) = %d, list holds %d' % (e, nm, len(proxy), len(proj))
    return None


def snapshot(el):
    """encoding + identity listing of the real children, recursively (C12 observation)"""
    def ids(e):
        # identity, and for fields / components / subcomponents their datatype (a refused datatype change must not leave it half done)
        if e.__class__.__name__ == 'SubComponent':
            return (id(e), e.datatype)
        dt = e.datatype if e.__class__.__name__ in ('Field', 'Component') else None
        return (id(e), dt, tuple(ids(c) for c in e.children.list))
    try:
        enc = el.to_er7()
    except Exception as ex:
        enc = 'to_er7 raised %s' % type(ex).__name__
    return enc, ids(el)


def half_attached(c):
    """True iff c claims a parent that does not list it"""
    p = c._parent if hasattr(c, '_parent') else None
    if p is None:
        return False
    return not any(x is c for x in p.children.list)


# ---- generic runner for the invariant (C10) and atomicity (C12) observations -------------------------------------
def run_checks(target, init, level, acts, mode, trace=None):
    """mode 'inv'   : after EVERY operation (accepted or refused) the trees of target and `other` are consistent
       mode 'atomic': an operation that raises leaves target, `other` and the enclosing root unchanged and the
                      offered child not half-attached
    returns True / False; `trace` (a list) receives a readable account"""
    reset_defaults()
    el, _ = make(target, init, level)
    other, _ = make(target, 0, level)
    otherbad, _ = make(target, 0, 1 if level == 2 else 2)     # same kind of element, other validation level
    root = el
    if target == 'seg':
        root = Message('ADT_A01', version='2.5', validation_level=level)
        root.msh.msh_7 = '2020'
        root.add(el)
    if mode == 'inv':
        msg = check_tree([root, other, otherbad])
        if msg:
            if trace is not None:
                trace.append('initial state inconsistent: ' + msg)
            return False
    for step, act in enumerate(acts, 1):
        before = (snapshot(root), snapshot(other), snapshot(otherbad)) if mode == 'atomic' else None
        offered = []
        try:
            apply_real(target, el, act, step, level, other, offered, otherbad)
            raised = None
        except Exception as e:
            raised = e
        if trace is not None:
            trace.append('%d. %s%s' % (step, describe(target, act, step), ' -> raised %s: %s' % (type(raised).__name__, raised)
                                       if raised is not None else ' -> accepted'))
            try:
                trace.append('      target %r   other %r' % (el.to_er7(), other.to_er7()))
            except Exception as e:
                trace.append('      (to_er7 raised %r)' % (e,))
        if mode == 'inv':
            msg = check_tree([root, other, otherbad])
            if msg:
                if trace is not None:
                    trace.append('   INCONSISTENT: ' + msg)
                return False
        elif raised is not None:
            after = (snapshot(root), snapshot(other), snapshot(otherbad))
            if after != before:
                if trace is not None:
                    trace.append('   NOT ATOMIC: before %r / %r\n               after  %r / %r' % (
                        before[0][0], before[1][0], after[0][0], after[1][0]))
                    if before[0][0] == after[0][0] and before[1][0] == after[1][0]:
                        trace.append('   (same encodings, but the listed children differ)')
                return False
            for c in offered:
                if half_attached(c):
                    if trace is not None:
                        trace.append('   HALF-ATTACHED: refused child %r keeps parent %r which does not list it' % (c, c._parent))
                    return False
    return True
