"""Row lists read from the LIVE version tables of /repo (data only - no hl7apy logic is used to interpret them).

VERSIONS          sorted version strings
SEGS[v]           sorted names of the version's segment entries that are ('sequence', ...) tables
                  (the pseudo-entry ANYHL7SEGMENT of kind 'choice' is not a segment and is excluded)
seg_children(v,s) list of child tuples (name, ref, cardinality, cls) or None when the entry has no child tuple
DTS[v]            sorted names of the version's complex datatypes (DATATYPES_STRUCTS)
dt_children(v,d)  list of component tuples
"""
import importlib
from vlib import chglue  # noqa: F401  (puts /repo first on sys.path)
from hl7apy import SUPPORTED_LIBRARIES


def _vkey(v):
    return tuple(int(x) for x in v.split('.'))


VERSIONS = sorted(SUPPORTED_LIBRARIES, key=_vkey)
LIBS = {v: importlib.import_module(SUPPORTED_LIBRARIES[v]) for v in VERSIONS}


def _is_choice(ref):
    return len(ref) >= 1 and ref[0] == 'choice'


SEGS = {v: sorted(s for s, ref in LIBS[v].SEGMENTS.items() if not _is_choice(ref)) for v in VERSIONS}
DTS = {v: sorted(LIBS[v].DATATYPES_STRUCTS) for v in VERSIONS}
MSGS = {v: sorted(LIBS[v].MESSAGES) for v in VERSIONS}
BASE = {v: sorted(LIBS[v].BASE_DATATYPES) for v in VERSIONS}


def seg_children(v, s):
    ref = LIBS[v].SEGMENTS[s]
    if len(ref) >= 2 and ref[0] == 'sequence' and isinstance(ref[1], (tuple, list)):
        return list(ref[1])
    return None


def dt_children(v, d):
    return list(LIBS[v].DATATYPES_STRUCTS[d])


def child_number(name):
    """number parsed from a child name like PID_3 / CX_10; None when the name has no such form"""
    try:
        return int(name.rsplit('_', 1)[1])
    except (IndexError, ValueError):
        return None


def child_datatype(child):
    ref = child[1]
    return ref[2] if len(ref) > 2 else None


def field_rows():
    """every (vi, si, k) with a defined field child"""
    out = []
    for vi, v in enumerate(VERSIONS):
        for si, s in enumerate(SEGS[v]):
            ch = seg_children(v, s) or []
            for k in range(len(ch)):
                out.append((vi, si, k))
    return out


def comp_rows():
    out = []
    for vi, v in enumerate(VERSIONS):
        for di, d in enumerate(DTS[v]):
            for j in range(len(dt_children(v, d))):
                out.append((vi, di, j))
    return out


MAXSEG = max(len(SEGS[v]) for v in VERSIONS)
MAXDT = max(len(DTS[v]) for v in VERSIONS)
MAXFIELDS = max(len(seg_children(v, s) or []) for v in VERSIONS for s in SEGS[v])
MAXCOMPS = max(len(dt_children(v, d)) for v in VERSIONS for d in DTS[v])
