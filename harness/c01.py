"""C01 - ER7 parse -> encode is the identity on canonical messages.

G.leaf    (E1, the leaf text is a FULLY SYMBOLIC string) parse_segment / parse_field / parse_component / parse_message of
          a concrete canonical skeleton with one symbolic leaf at a symbolically chosen position: to_er7() == text
S.shapes  (E1) canonical text built by the reference builder from a symbolic shape: two populated field positions, each as
          token / two repetitions / component / subcomponent, over a panel of segments of all versions, plus message level
          with find_groups symbolic
W.gaps    (E1) a value at a field number that the version's table skips (withdrawn field) - recorded finding
T.dtypes  (E3) z3 over ground facts: every datatype a field/component row names is a base datatype or a structure of that
          version; any other row is replayed as a round trip
The all-rows single-position round trip is C02 (R.fields / R.comps re-encode the parsed text).  The leaf lemma for long
leaf text is the E2 obligation shared with C06/C13.
"""
import random
import re
import time

from vlib.chglue import PART_K, PART_N, TIER, THOROUGH, SEED, KNOWN_OFF, in_part, reset_defaults, concrete, known_open, forked
from harness.c02 import bsearch
from harness import tables as T
from hl7apy.parser import parse_segment, parse_field, parse_component, parse_message

MAXLEAF = 3 if THOROUGH else 2
LETTERS = 'HNFSTRE'

# ---- G.leaf ---------------------------------------------------------------------------------------------------
# (kind, version, prefix, suffix, extra): text = prefix + s + suffix
SKELETONS = [
    ('segment', '2.5', 'PID|||1||', '^N', None),                 # XPN-1 (FN -> ST) first component, something after it
    ('segment', '2.5', 'PID|||1||S^N~', '', None),               # second repetition
    ('segment', '2.5', 'PID|||1^^^H&', '||S', None),             # subcomponent HD-2
    ('segment', '2.5', 'NTE|1||', '', None),                     # FT leaf at the end
    ('segment', '2.5', 'OBX|1|ST|A||', '||||||F', None),         # varies
    ('segment', '2.5', 'ZZZ|a|', '|c', None),                    # Z segment
    ('segment', '2.7', 'PID|||1||S^', '', None),                 # v2.7 textual datatypes (truncation character)
    ('segment', '2.3', 'QRD|', '', None) if 'QRD' in T.LIBS['2.3'].SEGMENTS else ('segment', '2.3', 'PID|||', '', None),
    ('field', '2.5', 'A^', '^C', 'PID_5'),
    ('component', '2.5', 'A&', '', 'CX_4'),
]
# (message-level skeletons with a symbolic leaf were built and did not confirm: the whole message text becomes one symbolic
#  string and parse_message's lstrip / header regex / split("\r") fork per character - 1 100+ paths unfinished after 400 s.
#  Message level is covered with opaque tokens by S.shapes (wrap) and by C03.)
NSK = len(SKELETONS)


def _canon_leaf(s, version):
    """canonical leaf text: printable ASCII, no delimiter, no leading/trailing blank, escape char only in well-formed sequences"""
    if len(s) == 0:
        return False          # an empty leaf at the end would be a trailing empty child
    for ch in s:
        if not (' ' <= ch <= '~') or ch in '|^~&':
            return False
        if ch == '#' and version >= '2.7':
            return False
    if s[0] == ' ' or s[-1] == ' ':
        return False
    if '\\' in s:
        return len(s) == 3 and s[0] == '\\' and s[2] == '\\' and s[1] in (LETTERS + ('L' if version >= '2.7' else ''))
    return True


def _roundtrip(ki, s):
    kind, version, pre, suf, extra = SKELETONS[ki]
    text = pre + s + suf
    if kind == 'segment':
        return parse_segment(text, version=version, validation_level=2).to_er7() == text
    if kind == 'field':
        return parse_field(text, name=extra, version=version, validation_level=2).to_er7() == text
    if kind == 'component':
        return parse_component(text, name=extra, version=version, validation_level=2).to_er7() == text
    return parse_message(text, validation_level=2, find_groups=extra).to_er7() == text


def _ob_leaf(ki: int, s: str) -> bool:
    """
    pre: 0 <= ki < NSK and in_part(ki)
    pre: len(s) <= MAXLEAF
    pre: _canon_leaf(s, SKELETONS[ki][1])
    post: _
    """
    reset_defaults()
    ki = bsearch(ki, NSK)
    return _roundtrip(ki, s)


# ---- S.shapes -------------------------------------------------------------------------------------------------
PANEL = [('2.5', 'PID'), ('2.5', 'OBX'), ('2.5', 'QPD'), ('2.5', 'PV1'), ('2.3', 'PID'), ('2.1', 'PID'), ('2.2', 'OBR'), ('2.4', 'ORC'),
         ('2.6', 'DG1'), ('2.7', 'PID'), ('2.8', 'EVN'), ('2.8.1', 'OBR'), ('2.8.2', 'IN1'), ('2.5.1', 'SPM'), ('2.3.1', 'NK1')]


def _panel():
    out = [(v, s) for v, s in PANEL if s in T.LIBS[v].SEGMENTS and T.seg_children(v, s)]
    if not THOROUGH:
        out = [x for x in out if x not in (('2.5', 'PV1'), ('2.2', 'OBR'), ('2.8.1', 'OBR'), ('2.8.2', 'IN1'), ('2.4', 'ORC'), ('2.5.1', 'SPM'))]
    if THOROUGH:
        rnd = random.Random(100 + SEED)
        rest = [(v, s) for v in T.VERSIONS for s in T.SEGS[v] if T.seg_children(v, s) and s != 'MSH' and (v, s) not in out]
        out += rnd.sample(rest, 60)
    return out


SEGPANEL = _panel()
NPANEL = len(SEGPANEL)
FORMS = ['token', 'reps', 'component', 'subcomponent', 'reps-with-empty-middle']
NFORM = len(FORMS)
MAXF = max(len(T.seg_children(v, s)) for v, s in SEGPANEL)


def form_text(v, child, form, c, k, tokA, tokB):
    """canonical text of one field in the requested form, or None if the datatype does not allow it"""
    ref = child[1]
    if form == 0:
        return tokA
    if form == 1:
        return tokA + '~' + tokB
    if form == 4:
        return tokA + '~~' + tokB
    if ref[0] != 'sequence':
        return None
    comps = ref[1]
    if c >= len(comps):
        return None
    cn = T.child_number(comps[c][0])
    if form == 2:
        return '^' * (cn - 1) + tokA if cn > 1 else tokA + '^' + tokB if len(comps) > 1 else None
    cref = comps[c][1]
    if cref[0] != 'sequence' or k >= len(cref[1]):
        return None
    sn = T.child_number(cref[1][k][0])
    if cn == 1 and sn == 1:
        return tokA + '&' + tokB if len(cref[1]) > 1 else None
    return '^' * (cn - 1) + '&' * (sn - 1) + tokA


def shape_text(pi, i, far, f1, f2, c, k):
    v, s = SEGPANEL[pi]
    ch = T.seg_children(v, s)
    if i >= len(ch):
        return None
    j = len(ch) - 1 if far else i + 1
    if j <= i or j >= len(ch):
        return None
    a = form_text(v, ch[i], f1, c, k, 'A1', 'A2')
    b = form_text(v, ch[j], f2, c, k, 'B1', 'B2')
    if a is None or b is None:
        return None
    ni, nj = T.child_number(ch[i][0]), T.child_number(ch[j][0])
    parts = [''] * nj
    parts[ni - 1] = a
    parts[nj - 1] = b
    return v, s, '|'.join([s] + parts)


def shape_check(pi, i, far, f1, f2, c, k, wrap, fg, trace=None):
    reset_defaults()
    r = shape_text(pi, i, far, f1, f2, c, k)
    if r is None:
        return True
    v, s, text = r
    if wrap:
        full = 'MSH|^~\\&|A|B|||2020||ZZZ^Z01|1|P|%s\r%s' % (v, text)
        out = parse_message(full, validation_level=2, find_groups=fg).to_er7()
        ok = out == full
    else:
        out = parse_segment(text, version=v, validation_level=2).to_er7()
        ok = out == text
    if trace is not None:
        trace.append('%s %s shape (%s @%d, %s @%s)%s\n  text %r\n  out  %r' % (v, s, FORMS[f1], i, FORMS[f2], 'last' if far else i + 1,
                                                                              ' inside a message, find_groups=%s' % fg if wrap else '', text, out))
    return ok


def _all_shapes():
    out = []
    for pi in range(NPANEL):
        for i in range(MAXF):
            for far in (False, True):
                for f1 in range(NFORM):
                    for f2 in range(NFORM):
                        for c in range(3):
                            for k in range(2):
                                if (f1 in (0, 1, 4) and f2 in (0, 1, 4) and (c > 0 or k > 0)) or (f1 != 3 and f2 != 3 and k > 0):
                                    continue      # c / k are irrelevant for these forms: one representative
                                if shape_text(pi, i, far, f1, f2, c, k) is not None:
                                    out.append((pi, i, far, f1, f2, c, k))
    return out


SHAPES = _all_shapes()
NSHAPES = len(SHAPES)
WRAPS = [(False, False), (True, True), (True, False)]


def _ob_shape(r: int, w: int) -> bool:
    """
    pre: 0 <= r < NSHAPES and 0 <= w < 3
    pre: in_part(r)
    post: _
    """
    r, w = bsearch(r, NSHAPES), bsearch(w, 3)
    with concrete():
        pi, i, far, f1, f2, c, k = SHAPES[r]
        wrap, fg = WRAPS[w]
        return shape_check(pi, i, far, f1, f2, c, k, wrap, fg)


# ---- K.catalogue: special canonical texts (symbolic index) -----------------------------------------------------------------------
# (kind, version, text, id of the recorded finding it belongs to or None)
CATALOGUE = [
    ('message', '2.7', 'MSH|^~\\&|A|B|||2020||ADT^A01^ADT_A01|1|P|2.7\rEVN||2020\rPID|||1||a#b\rPV1||I', None),   # 4-char MSH-2: '#' is data
    ('message', '2.8', 'MSH|^~\\&|A|B|||2020||ADT^A01^ADT_A01|1|P|2.8\rEVN||2020\rPID|||1||a#b^c#\rPV1||I', None),
    ('message', '2.7', 'MSH|^~\\&#|A|B|||2020||ADT^A01^ADT_A01|1|P|2.7\rEVN||2020\rPID|||1||a\\L\\b\rPV1||I', None),
    ('message', '2.5', 'MSH|^~\\&|A|B|||2020||ADT^A01^ADT_A01|1|P|2.5\rEVN||2020\rPID|||1||a#b\rPV1||I', None),
    ('segment', '2.5', 'PID|||1~~2||A~~B', None),
    ('segment', '2.5', 'PID|||~2||S', None),
    ('segment', '2.3', 'PID|||1||S||||||||555-1234', None),               # TN leaf (base datatype up to 2.4)
    ('segment', '2.5', 'OBX|1|NM|A||1.5||||||F', None),
    ('segment', '2.5', 'OBX|1|DT|A||20200229||||||F', None),
    ('segment', '2.5', 'NTE|1||a\\.br\\b', 'C01-multichar-escape'),
    ('segment', '2.5', 'NTE|1||a\\X0D\\b', 'C01-multichar-escape'),
    ('segment', '2.5', 'BHS|^~\\&|SND|FAC', 'C01-batch-header-delimiters'),
    ('segment', '2.5', 'FHS|^~\\&|SND|FAC', 'C01-batch-header-delimiters'),
    # MSH-12 with components, with the 5-character MSH-2 of 2.7+
    ('message', '2.7', 'MSH|^~\\&#|A|B|||2020||ADT^A01^ADT_A01|1|P|2.7^ITA\rEVN||2020\rPID|||1||S\rPV1||I', None),
    ('message', '2.8.1', 'MSH|^~\\&#|A|B|||2020||ADT^A01^ADT_A01|1|P|2.8.1^ITA&Italy&ISO3166^1.0\rEVN||2020\rPID|||1||S\rPV1||I', None),
    # two messages, one after the other in one process, that declare different escape characters; the second carries the first one's
    # escape character as data (and the other way round)
    ('sequence', '2.5', ('MSH|^~\\&|A|B|||2020||ADT^A01^ADT_A01|1|P|2.5\rEVN||2020\rPID|||1||a\\F\\b\rPV1||I',
                         'MSH|^~@&|A|B|||2020||ADT^A01^ADT_A01|1|P|2.5\rEVN||2020\rPID|||1||C:\\TEMP@F@x\rPV1||I',
                         'MSH|^~\\&|A|B|||2020||ADT^A01^ADT_A01|1|P|2.5\rEVN||2020\rPID|||1||a@b\\F\\\rPV1||I'), None),
    ('sequence', '2.5', ('MSH|^~\\&|A|B|||2020||ADT^A01^ADT_A01|1|P|2.5\rEVN||2020\rPID|||1||a\\F\\b\rPV1||I',
                         'MSH|^~\\&#|A|B|||2020||ADT^A01^ADT_A01|1|P|2.7\rEVN||2020\rPID|||1||a\\L\\b\\F\\\rPV1||I',
                         'MSH|^~\\&|A|B|||2020||ADT^A01^ADT_A01|1|P|2.6\rEVN||2020\rPID|||1||a\\T\\b\rPV1||I'), None),
    ('sequence', '2.7', ('MSH|^~\\&#|A|B|||2020||ADT^A01^ADT_A01|1|P|2.7\rEVN||2020\rPID|||1||a\\L\\b\rPV1||I',
                         'MSH|^~$&|A|B|||2020||ADT^A01^ADT_A01|1|P|2.7\rEVN||2020\rPID|||1||a\\b#c$F$\rPV1||I',
                         'MSH|^~\\&|A|B|||2020||ADT^A01^ADT_A01|1|P|2.4\rEVN||2020\rPID|||1||a$b\\F\\\rPV1||I'), None),
]
NCAT = len(CATALOGUE)


def cat_check(i, trace=None):
    reset_defaults()
    kind, v, text, finding = CATALOGUE[i]
    if finding and known_open(finding):
        return True
    if kind == 'sequence':
        outs = forked(lambda: tuple(parse_message(t, validation_level=2).to_er7() for t in text))    # from a fresh process state
        if trace is not None:
            trace.append('messages parsed and encoded one after the other in one process\n  texts %r\n  outs  %r' % (text, outs))
        return outs == tuple(text)
    # (every catalogue entry runs in a forked child: the worker itself never encodes anything, so an entry's outcome cannot depend on
    #  the entries checked before it)
    if kind == 'message':
        outs = forked(lambda: [parse_message(text, validation_level=2, find_groups=fg).to_er7() for fg in (True, False)])
    else:
        outs = forked(lambda: [parse_segment(text, version=v, validation_level=2).to_er7()])
    if trace is not None:
        trace.append('%s %s\n  text %r\n  out  %r' % (kind, v, text, outs))
    return all(o == text for o in outs)


def _ob_cat(i: int) -> bool:
    """
    pre: 0 <= i < NCAT
    post: _
    """
    i = bsearch(i, NCAT)
    with concrete():
        return cat_check(i)


def _witness_multichar():
    return all(cat_check(i) for i, c in enumerate(CATALOGUE) if c[3] == 'C01-multichar-escape')


def _witness_batch():
    return all(cat_check(i) for i, c in enumerate(CATALOGUE) if c[3] == 'C01-batch-header-delimiters')


# ---- W.gaps ---------------------------------------------------------------------------------------------------
GAPS = []    # (version, segment, withdrawn number) : numbers below the maximum that the table does not define
for _v in T.VERSIONS:
    for _s in T.SEGS[_v]:
        _ch = T.seg_children(_v, _s)
        if not _ch or _s == 'MSH':
            continue
        _nums = [T.child_number(c[0]) for c in _ch]
        for _n in range(1, max(_nums)):
            if _n not in _nums:
                GAPS.append((_v, _s, _n))
NGAPS = len(GAPS)


def gap_check(gi, trace=None):
    reset_defaults()
    v, s, n = GAPS[gi]
    ch = T.seg_children(v, s)
    last = max(T.child_number(c[0]) for c in ch)
    parts = [''] * last
    parts[n - 1] = 'W'
    parts[last - 1] = 'Z'
    text = '|'.join([s] + parts)
    out = parse_segment(text, version=v, validation_level=2).to_er7()
    if trace is not None:
        trace.append('%s %s: value at withdrawn field number %d\n  text %r\n  out  %r' % (v, s, n, text, out))
    return out == text


def _ob_gap(gi: int) -> bool:
    """
    pre: 0 <= gi < NGAPS
    pre: in_part(gi)
    post: _
    """
    gi = bsearch(gi, NGAPS)
    with concrete():
        if known_open('C01-withdrawn-field-number'):
            return True
        return gap_check(gi)


# ---- T.dtypes (E3) --------------------------------------------------------------------------------------------
def _e3_dtypes(tier, seed, nproc):
    import z3
    from harness.c02 import FIELD_ROWS, field_row
    dt = z3.Function('dtype', z3.IntSort(), z3.IntSort())
    known = z3.Function('known', z3.IntSort(), z3.BoolSort())
    x = z3.Int('row')
    queries = 0
    solver_s = 0.0
    odd = []
    nrows = 0
    s = z3.Solver()
    s.set('timeout', 60000)
    for vi, v in enumerate(T.VERSIONS):
        lib = T.LIBS[v]
        ids = {}
        rows = []
        for name, ref in sorted(lib.FIELDS.items()):
            rows.append(('field', name, ref[2] if len(ref) > 2 else None))
        for name, ref in sorted(lib.DATATYPES.items()):
            rows.append(('component', name, ref[2] if len(ref) > 2 else None))
        nrows += len(rows)
        s.push()
        for r, (_, _, d) in enumerate(rows):
            s.add(dt(r) == ids.setdefault(d, len(ids)))
        for d, i in ids.items():
            s.add(known(i) == bool(d in lib.BASE_DATATYPES or d in lib.DATATYPES_STRUCTS or d == 'varies'))
        s.add(x >= 0, x < len(rows), z3.Not(known(dt(x))))
        while True:
            q0 = time.time()
            res = str(s.check())
            solver_s += time.time() - q0
            queries += 1
            if res != 'sat':
                if res != 'unsat':
                    return {'status': 'unknown', 'message': 'z3: %s' % res}
                break
            rv = s.model()[x].as_long()
            odd.append((v,) + rows[rv])
            s.add(x != rv)
        s.pop()
    # replay: every field row naming an unknown datatype must still round-trip (C02's row function re-encodes the parsed text)
    cex = []
    for (v, kind, name, d) in odd:
        if kind != 'field':
            continue
        seg = name.split('_')[0]
        if seg not in T.SEGS[v] or not T.seg_children(v, seg):
            continue
        names = [c[0] for c in T.seg_children(v, seg)]
        if name not in names:
            continue
        vi, si, k = T.VERSIONS.index(v), T.SEGS[v].index(seg), names.index(name)
        try:
            ok = field_row(v, seg, k)
        except Exception:
            ok = False
        if not ok:
            cex.append({'call': '_replay_dtype_row(%d, %d, %d)' % (vi, si, k), 'message': '%s %s names datatype %r' % (v, name, d)})
    return {'status': 'refuted' if cex else 'confirmed', 'queries': queries, 'solver_s': round(solver_s, 2),
            'pieces_total': len(T.VERSIONS), 'pieces_confirmed': len(T.VERSIONS) if not cex else 0, 'counterexamples': cex,
            'samples': [{'rows_as_ground_facts': nrows, 'rows_naming_an_unknown_datatype': [list(o) for o in odd],
                         'of_which_fail_the_round_trip': len(cex)}]}


def _replay_dtype_row(vi, si, k):
    from harness.c02 import field_row
    v = T.VERSIONS[vi]
    return field_row(v, T.SEGS[v][si], k)


def explain(call):
    m = re.match(r'(\w+)\((.*)\)$', call, re.S)
    a, kw = eval('(lambda *a, **k: (a, k))(%s)' % m.group(2))
    tr = []
    try:
        if m.group(1) == '_ob_leaf':
            v = dict(zip(['ki', 's'], a)); v.update(kw)
            kind, version, pre, suf, extra = SKELETONS[v['ki']]
            text = pre + v['s'] + suf
            tr.append('%s (version %s) text %r' % (kind, version, text))
            tr.append('round trip holds: %s' % _roundtrip(v['ki'], v['s']))
        elif m.group(1) == '_ob_shape':
            v = dict(zip(['r', 'w'], a)); v.update(kw)
            shape_check(*(SHAPES[v['r']] + WRAPS[v['w']]), trace=tr)
        elif m.group(1) == '_ob_cat':
            cat_check(a[0] if a else kw['i'], tr)
        elif m.group(1) in ('_witness_multichar', '_witness_batch'):
            for i, c in enumerate(CATALOGUE):
                if c[3]:
                    cat_check(i, tr)
        elif m.group(1) == '_ob_gap':
            gap_check(a[0] if a else kw['gi'], tr)
    except Exception as e:
        tr.append('raised %s: %s' % (type(e).__name__, e))
    return '\n'.join(tr)


SPEC = {
    'property': 'C01',
    'files': ['hl7apy/parser.py', 'hl7apy/core.py', 'hl7apy/base_datatypes.py', 'hl7apy/factories.py', 'hl7apy/v2_7/base_datatypes.py'],
    'functions_encoded': ['hl7apy.parser.parse_message/parse_segments/parse_segment/parse_fields/parse_field/parse_components/'
                          'parse_component/parse_subcomponents/parse_subcomponent', 'hl7apy.core.*.to_er7/_get_children/_remove_trailing',
                          'hl7apy.factories.datatype_factory', 'hl7apy.base_datatypes.TextualDataType._escape_value'],
    'assumptions': ['TOLERANT level, default delimiters of the version',
                    'G.leaf: the leaf is a fully symbolic string restricted by the canonical-leaf predicate (printable ASCII, no '
                    'delimiter, no leading/trailing blank, escape character only as a well-formed 3-character sequence)',
                    'S.shapes: shape parameters symbolic and exhausted; opaque tokens A1/A2/B1/B2 as leaf text',
                    'composition of "one leaf arbitrary" (G) and "shape arbitrary, leaves opaque" (S, C02) into arbitrary canonical '
                    'messages is an assumption (the parser applies no operation to leaf text besides strip()-for-emptiness tests)'],
    'outside': ['leaves longer than %d characters through the real parser (longer leaves: E2 leaf lemma); more than two populated '
                'fields per segment; non-ASCII' % MAXLEAF],
    'stubs': [],
    'obligations': [
        {'name': 'G.leaf', 'fn': '_ob_leaf', 'parts': NSK, 'cond_timeout': {'quick': 400, 'thorough': 2400}, 'path_timeout': 60,
         'bound': '%d skeletons (segment/field/component/message, find_groups on/off) x every canonical leaf string of length <=%d' % (NSK, MAXLEAF)},
        {'name': 'S.shapes', 'fn': '_ob_shape', 'parts': 32, 'cond_timeout': {'quick': 900, 'thorough': 3000}, 'path_timeout': 60,
         'bound': '%d (version, segment) pairs x field i x {next field, last field} x forms %r^2 x component<3 x subcomponent<2 '
                  '(%d applicable shapes) x {segment alone, inside a message with find_groups on/off}' % (NPANEL, FORMS, NSHAPES)},
        {'name': 'K.catalogue', 'fn': '_ob_cat', 'parts': 1, 'cond_timeout': 300, 'path_timeout': 60,
         'bound': '%d special canonical texts (4-character MSH-2 under v2.7+, empty repetitions, TN / NM / DT leaves, multi-character '
                  'escapes, batch headers)' % NCAT},
        {'name': 'W.gaps', 'fn': '_ob_gap', 'parts': 8, 'cond_timeout': 600, 'path_timeout': 60, 'allow_empty_pieces': True,
         'bound': 'all %d withdrawn field numbers (numbers a segment table skips below its maximum)' % NGAPS},
        {'name': 'T.dtypes', 'engine': 'E3', 'worker': '_e3_dtypes',
         'bound': 'z3 over ground facts for all FIELDS and DATATYPES rows of all versions: datatype named is base / structure / varies'},
    ],
}
