"""C02 - every defined position is encoded at, and parsed from, its own index.

E1 (CrossHair on the real Segment/Field/parser code, symbolic row indices, exhaustive over ALL rows of ALL versions):
  R.fields   (version, segment, field ordinal)             set by name -> encode -> position -> parse -> read back
  R.comps    (version, complex datatype, component ordinal, subcomponent ordinal or none)
  R.inst     every segment / complex datatype a version declares can be instantiated
  Z.open     Z-segment and segments whose last field is 'varies': two indices i<j<=N, either order
E3 (z3 over ground facts taken from the live tables):
  T.fields / T.comps   "the number in a child's name equals its ordinal+1", "every sequence segment has children";
                       every model is replayed through the same row functions
"""
import json
import os
import time

from vlib.chglue import PART_K, PART_N, TIER, THOROUGH, KNOWN_OFF, in_part, reset_defaults, concrete
from harness import tables as T
from harness.hist import concretize as _linear  # noqa: F401
from hl7apy.core import Segment, Field, Component
from hl7apy.parser import parse_segment

NV = len(T.VERSIONS)
NOPEN = 96 if THOROUGH else 24


def bsearch(p, n):
    """fork CrossHair down to one concrete value of p in [0, n) with ~log2(n) decisions"""
    lo, hi = 0, n - 1
    while lo < hi:
        mid = (lo + hi) // 2
        if p <= mid:
            hi = mid
        else:
            lo = mid + 1
    return lo


# ---- known rows (recorded findings): loaded from known_findings.json ---------------------------------------------
def _load_known_rows():
    path = os.path.join(os.path.dirname(os.path.dirname(os.path.abspath(__file__))), 'known_findings.json')
    rows = set()
    try:
        with open(path) as f:
            data = json.load(f)
    except OSError:
        return rows
    for e in data.get('findings', []):
        if e.get('property') == 'C02' and e.get('status', 'open') == 'open':
            for r in e.get('rows', []):
                rows.add(tuple(r))
    return rows


KNOWN_ROWS = set() if KNOWN_OFF else _load_known_rows()


# ---- row functions (plain Python over the public API; also used as replay of E3 models) --------------------------
def field_row(v, s, k, trace=None):
    """True iff field child number k (0-based ordinal in the table) of segment s in version v is encoded at the index
    its name states and parsed back under that name"""
    ch = T.seg_children(v, s)
    name = ch[k][0]
    n = T.child_number(name)
    seg = Segment(s, version=v, validation_level=2)
    if s == 'MSH' and n in (1, 2):
        return True   # MSH-1/MSH-2 are the delimiters themselves (C07)
    setattr(seg, name.lower(), 'X')
    text = seg.to_er7()
    parts = text.split('|')
    want = n if s != 'MSH' else n - 1
    ok = parts[0] == s and len(parts) == want + 1 and parts[want] == 'X' and all(p == '' for p in parts[1:want])
    if trace is not None:
        trace.append('%s %s.%s = X -> %r (expected X after exactly %d separators)' % (v, s, name, text, want))
    if not ok:
        return False
    back = parse_segment(text, version=v, validation_level=2)
    got = getattr(back, name.lower())
    ok2 = len(got) == 1 and got[0].to_er7() == 'X' and back.to_er7() == text
    if trace is not None:
        trace.append('parse_segment(%r).%s -> %r ; re-encoded %r' % (text, name.lower(), [g.to_er7() for g in got], back.to_er7()))
    return ok2


def comp_row(v, d, j, k, trace=None):
    """component ordinal j (and subcomponent ordinal k, or -1) of complex datatype d"""
    comps = T.dt_children(v, d)
    cname = comps[j][0]
    cn = T.child_number(cname)
    f = Field('ZZZ_1', datatype=d, version=v, validation_level=2)
    if k < 0:
        setattr(f, cname.lower(), 'X')
        want = '^' * (cn - 1) + 'X'
        sname = None
    else:
        cd = T.child_datatype(comps[j])
        subs = T.dt_children(v, cd)
        sname = subs[k][0]
        sn = T.child_number(sname)
        setattr(f, 'zzz_1_%d_%d' % (cn, sn), 'X')
        want = '^' * (cn - 1) + '&' * (sn - 1) + 'X'
    text = f.to_er7()
    if trace is not None:
        trace.append('%s Field(ZZZ_1, datatype=%s).%s%s = X -> %r (expected %r)' % (v, d, cname, '.' + sname if sname else '', text, want))
    if text != want:
        return False
    g = Field('ZZZ_1', datatype=d, version=v, validation_level=2)
    g.value = text
    c = getattr(g, cname.lower())
    if k < 0:
        ok = len(c) == 1 and c[0].to_er7() == 'X'
    else:
        sc = getattr(c[0], sname.lower()) if len(c) == 1 else []
        ok = len(sc) == 1 and sc[0].to_er7() == 'X'
    if trace is not None:
        trace.append('parsed back: %s -> %s ; re-encoded %r' % (cname, ok, g.to_er7()))
    if not (ok and g.to_er7() == text):
        return False
    # a LATER sibling keeps its index when this child goes away again: populate the last component (subcomponent) too, delete the
    # one written above, and the other value must still sit after the same number of separators
    if k < 0 and j < len(comps) - 1:
        last = comps[-1][0]
        h = Field('ZZZ_1', datatype=d, version=v, validation_level=2)
        setattr(h, cname.lower(), 'X')
        setattr(h, last.lower(), 'Y')
        delattr(h, cname.lower())
        want2 = '^' * (T.child_number(last) - 1) + 'Y'
        if trace is not None:
            trace.append('%s and %s set, %s deleted -> %r (expected %r)' % (cname, last, cname, h.to_er7(), want2))
        return h.to_er7() == want2
    if k >= 0 and k < len(subs) - 1:
        lastsub = subs[-1][0]
        h = Field('ZZZ_1', datatype=d, version=v, validation_level=2)
        setattr(h, 'zzz_1_%d_%d' % (cn, sn), 'X')
        setattr(h, 'zzz_1_%d_%d' % (cn, T.child_number(lastsub)), 'Y')
        delattr(getattr(h, cname.lower())[0], sname.lower())
        want2 = '^' * (cn - 1) + '&' * (T.child_number(lastsub) - 1) + 'Y'
        if trace is not None:
            trace.append('%s.%s and .%s set, %s deleted -> %r (expected %r)' % (cname, sname, lastsub, sname, h.to_er7(), want2))
        return h.to_er7() == want2
    return True


def inst_row(v, kind, name, trace=None):
    if kind == 0:
        Segment(name, version=v, validation_level=2)
    else:
        Field('ZZZ_1', datatype=name, version=v, validation_level=2)
    return True


OPEN = []   # (version, segment) open-ended: Z segment + segments whose last field is varies (from the tables)
for _v in T.VERSIONS:
    OPEN.append((_v, 'ZXX'))
    for _s in T.SEGS[_v]:
        _ch = T.seg_children(_v, _s)
        if _ch and T.child_datatype(_ch[-1]) == 'varies':
            OPEN.append((_v, _s))
NO = len(OPEN)


def open_row(oi, i, j, order, trace=None):
    v, s = OPEN[oi]
    ch = T.seg_children(v, s) if s != 'ZXX' else []
    last = T.child_number(ch[-1][0]) if ch else 0
    i, j = last + i, last + j     # indices beyond the defined ones
    seg = Segment(s, version=v, validation_level=2)
    a, b = ('%s_%d' % (s, i), 'A'), ('%s_%d' % (s, j), 'B')
    for nm, val in ((a, b) if order == 0 else (b, a)):
        setattr(seg, nm.lower(), val)
    text = seg.to_er7()
    parts = text.split('|')
    ok = len(parts) == j + 1 and parts[i] == 'A' and parts[j] == 'B' and \
        all(p == '' for q, p in enumerate(parts) if q not in (0, i, j))
    if trace is not None:
        trace.append('%s %s: %s=A, %s=B (order %d) -> %r' % (v, s, a[0], b[0], order, text))
    if not ok:
        return False
    back = parse_segment(text, version=v, validation_level=2)
    ga, gb = getattr(back, a[0].lower()), getattr(back, b[0].lower())
    ok = len(ga) == 1 and ga[0].to_er7() == 'A' and len(gb) == 1 and gb[0].to_er7() == 'B' and back.to_er7() == text
    if trace is not None:
        trace.append('parsed back -> %s' % ok)
    return ok


# ---- E1 obligations ----------------------------------------------------------------------------------------
FIELD_ROWS = T.field_rows()                     # (vi, si, k) for every defined field child
COMP_ROWS = []                                  # (vi, di, j, k): k = -1 component itself, else subcomponent ordinal
for (_vi, _di, _j) in T.comp_rows():
    _v = T.VERSIONS[_vi]
    _comps = T.dt_children(_v, T.DTS[_v][_di])
    COMP_ROWS.append((_vi, _di, _j, -1))
    _cd = T.child_datatype(_comps[_j])
    if _cd in T.LIBS[_v].DATATYPES_STRUCTS:
        for _k in range(len(T.dt_children(_v, _cd))):
            COMP_ROWS.append((_vi, _di, _j, _k))
INST_ROWS = [(vi, 0, ni) for vi, v in enumerate(T.VERSIONS) for ni in range(len(T.SEGS[v]))] + \
            [(vi, 1, ni) for vi, v in enumerate(T.VERSIONS) for ni in range(len(T.DTS[v]))]
NF, NC, NI = len(FIELD_ROWS), len(COMP_ROWS), len(INST_ROWS)


def _ob_field(r: int) -> bool:
    """
    pre: 0 <= r < NF
    pre: in_part(r)
    post: _
    """
    r = bsearch(r, NF)
    with concrete():
        vi, si, k = FIELD_ROWS[r]
        v = T.VERSIONS[vi]
        s = T.SEGS[v][si]
        if (v, s, T.seg_children(v, s)[k][0]) in KNOWN_ROWS:
            return True
        reset_defaults()
        return field_row(v, s, k)


def _ob_comp(r: int) -> bool:
    """
    pre: 0 <= r < NC
    pre: in_part(r)
    post: _
    """
    r = bsearch(r, NC)
    with concrete():
        vi, di, j, k = COMP_ROWS[r]
        v = T.VERSIONS[vi]
        d = T.DTS[v][di]
        if (v, d, T.dt_children(v, d)[j][0], k) in KNOWN_ROWS:
            return True
        reset_defaults()
        return comp_row(v, d, j, k)


def _ob_inst(r: int) -> bool:
    """
    pre: 0 <= r < NI
    pre: in_part(r)
    post: _
    """
    r = bsearch(r, NI)
    with concrete():
        vi, kind, ni = INST_ROWS[r]
        v = T.VERSIONS[vi]
        names = T.SEGS[v] if kind == 0 else T.DTS[v]
        if (v, 'segment' if kind == 0 else 'datatype', names[ni]) in KNOWN_ROWS:
            return True
        reset_defaults()
        return inst_row(v, kind, names[ni])


def _ob_open(oi: int, i: int, j: int, order: int) -> bool:
    """
    pre: 0 <= oi < NO and 1 <= i < j <= NOPEN and 0 <= order < 2
    pre: in_part(i + j)
    post: _
    """
    oi = bsearch(oi, NO)
    i = bsearch(i, NOPEN + 1)
    j = bsearch(j, NOPEN + 1)
    order = bsearch(order, 2)
    with concrete():
        reset_defaults()
        return open_row(oi, i, j, order)


# ---- components of a field of type varies (OBX-5, QPD-3, the fields beyond the last defined one of an open-ended segment) ----------
VARIES = []     # (version, segment, field number)
for _v in T.VERSIONS:
    for _s in T.SEGS[_v]:
        _ch = T.seg_children(_v, _s)
        if not _ch:
            continue
        for _c in _ch:
            if T.child_datatype(_c) == 'varies':
                VARIES.append((_v, _s, T.child_number(_c[0]), False))
        if T.child_datatype(_ch[-1]) == 'varies':
            VARIES.append((_v, _s, T.child_number(_ch[-1][0]) + 2, True))       # a field beyond the defined count
NVAR = len(VARIES)
VWAYS = ['f.varies_j = text', 'f.varies_j.value = text', 'f.<seg>_<i>_<j> = text', 'seg.<seg>_<i>.varies_j = text (navigation)']
NVW = len(VWAYS)
VMAXJ = 4


def varies_row(r, j, k, way, trace=None):
    """component j (and, k > 0, its subcomponent k by text 'a&b') of a varies field is written at position j and read back"""
    v, s, n, beyond = VARIES[r]
    if beyond:
        way = 3      # a field beyond the defined count exists only inside its segment
    fname = '%s_%d' % (s, n)
    seg = Segment(s, version=v, validation_level=2)
    text = 'X' if k == 0 else '&' * (k - 1) + 'X'
    if way == 3:
        setattr(getattr(seg, fname.lower()), 'varies_%d' % j, text)
    else:
        f = Field(fname, version=v, validation_level=2) if way != 3 else None
        if way == 0:
            setattr(f, 'varies_%d' % j, text)
        elif way == 1:
            getattr(f, 'varies_%d' % j).value = text
        else:
            setattr(f, '%s_%d' % (fname.lower(), j), text)
        seg.add(f)
    got = seg.to_er7()
    want = s + '|' * n + '^' * (j - 1) + text
    if trace is not None:
        trace.append('%s %s.%s component %d%s by %s -> %r (expected %r)' % (v, s, fname, j, ' subcomponent %d' % k if k else '', VWAYS[way], got, want))
    if got != want:
        return False
    back = parse_segment(got, version=v, validation_level=2)
    comp = getattr(getattr(back, fname.lower()), 'varies_%d' % j)
    ok = back.to_er7() == got and len(comp) == 1 and comp[0].to_er7() == text
    if trace is not None:
        trace.append('parsed back: %r, component read by name %r' % (back.to_er7(), [c.to_er7() for c in comp]))
    if not ok or k != 0:
        return ok
    # a second component at a two-digit position of the same field (positions compare as numbers, not as text)
    fld = getattr(seg, fname.lower())[0]
    setattr(fld, 'varies_11', 'Y')
    want2 = want + '^' * (11 - j) + 'Y'
    got2 = seg.to_er7()
    setattr(fld, 'varies_11', 'Z')          # replaced in place
    got3 = seg.to_er7()
    delattr(fld, 'varies_11')               # and gone again
    got4 = seg.to_er7()
    if trace is not None:
        trace.append('+ varies_11 = Y -> %r (expected %r) ; = Z -> %r ; deleted -> %r' % (got2, want2, got3, got4))
    return got2 == want2 and got3 == want2[:-1] + 'Z' and got4 == want


def _ob_varies(r: int, j: int, k: int, way: int) -> bool:
    """
    pre: 0 <= r < NVAR and 1 <= j <= VMAXJ and 0 <= k <= 2 and 0 <= way < NVW
    pre: in_part(r)
    post: _
    """
    r = bsearch(r, NVAR)
    j = bsearch(j - 1, VMAXJ) + 1
    k = bsearch(k, 3)
    way = bsearch(way, NVW)
    with concrete():
        reset_defaults()
        return varies_row(r, j, k, way)


# ---- E3: table obligations decided by z3 over ground facts ---------------------------------------------------
def _e3_run(which):
    """Table obligations as z3 queries over ground facts read from the live tables.

    fields: Segment._get_children places a field at the number in its name and the parser names the i-th piece
            <SEG>_<i>; both agree for every row iff, within each segment, the numbers in the child names are >= 1 and
            strictly increasing with the ordinal.  Query per segment: exists ordinal k with num(k) < 1 or
            (k > 0 and num(k) <= num(k-1)).
    comps : Element._get_children / the component parsers work by ordinal, so the number in the name must be
            ordinal + 1.  Query per datatype: exists k with num(k) != k + 1.
    Every model is replayed through the public API (row functions above); the query is repeated with the row blocked
    until unsat."""
    def run(tier, seed, nproc):
        import z3
        num = z3.Function('num', z3.IntSort(), z3.IntSort())      # ordinal -> number parsed from the child's name
        x = z3.Int('k')
        tables = []      # one entry per parent (segment / datatype): (key prefix, [numbers by ordinal])
        empties = []
        if which == 'fields':
            for vi, v in enumerate(T.VERSIONS):
                for si, sname in enumerate(T.SEGS[v]):
                    ch = T.seg_children(v, sname)
                    if ch is None:
                        empties.append((vi, si))
                        continue
                    tables.append(((vi, si), [T.child_number(c[0]) if c[0].startswith(sname + '_') else None for c in ch]))
        else:
            for vi, v in enumerate(T.VERSIONS):
                for di, d in enumerate(T.DTS[v]):
                    tables.append(((vi, di), [T.child_number(c[0]) if c[0].startswith(d + '_') else None
                                              for c in T.dt_children(v, d)]))
        queries = 0
        solver_s = 0.0
        found = []
        nrows = 0
        s = z3.Solver()
        s.set('timeout', 60000)
        for key, numbers in tables:
            nrows += len(numbers)
            s.push()
            for k, n in enumerate(numbers):
                s.add(num(k) == (n if n is not None else -1))
            s.add(x >= 0, x < len(numbers))
            if which == 'fields':
                s.add(z3.Or(num(x) < 1, z3.And(x > 0, num(x) <= num(x - 1))))
            else:
                s.add(num(x) != x + 1)
            while True:
                q0 = time.time()
                res = str(s.check())
                solver_s += time.time() - q0
                queries += 1
                if res == 'unsat':
                    break
                if res != 'sat':
                    return {'status': 'unknown', 'message': 'z3 said %s' % res, 'queries': queries, 'solver_s': solver_s}
                kv = s.model()[x].as_long()
                found.append(key + (kv,))
                s.add(x != kv)
            s.pop()
        cex = []
        known = 0
        for key in found:
            if which == 'fields':
                vi, si, k = key
                v = T.VERSIONS[vi]
                sname = T.SEGS[v][si]
                if (v, sname, T.seg_children(v, sname)[k][0]) in KNOWN_ROWS:
                    known += 1
                    continue
                cex.append({'call': '_replay_field(%d, %d, %d)' % key, 'message': 'table row %s %s %s breaks the numbering predicate' % (
                    v, sname, T.seg_children(v, sname)[k][0])})
            else:
                vi, di, j = key
                v = T.VERSIONS[vi]
                d = T.DTS[v][di]
                if (v, d, T.dt_children(v, d)[j][0], -1) in KNOWN_ROWS:
                    known += 1
                    continue
                cex.append({'call': '_replay_comp(%d, %d, %d)' % key, 'message': 'table row %s %s: number != ordinal+1' % (v, d)})
        for (vi, si) in empties:
            v = T.VERSIONS[vi]
            if (v, 'segment', T.SEGS[v][si]) in KNOWN_ROWS:
                known += 1
                continue
            cex.append({'call': '_replay_inst(%d, 0, %d)' % (vi, si), 'message': 'segment entry %s %s has no child tuple' % (v, T.SEGS[v][si])})
        return {'status': 'refuted' if cex else 'confirmed', 'queries': queries, 'solver_s': round(solver_s, 2),
                'paths': 0, 'pieces_total': len(tables), 'pieces_confirmed': len(tables) - len({k[:2] for k in found}),
                'counterexamples': cex, 'rows': nrows, 'rows_violating_table_predicate': len(found), 'rows_known': known,
                'samples': [{'tables_as_ground_facts': len(tables), 'rows': nrows, 'violating': len(found), 'known': known,
                             'first': [list(k) for k in found[:5]]}]}
    return run


_e3_fields = _e3_run('fields')
_e3_comps = _e3_run('comps')


def _replay_field(vi, si, k):
    v = T.VERSIONS[vi]
    return field_row(v, T.SEGS[v][si], k)


def _replay_comp(vi, di, j):
    v = T.VERSIONS[vi]
    return comp_row(v, T.DTS[v][di], j, -1)


def _replay_inst(vi, kind, ni):
    v = T.VERSIONS[vi]
    return inst_row(v, kind, (T.SEGS[v] if kind == 0 else T.DTS[v])[ni])


def explain(call):
    import re
    m = re.match(r'(\w+)\((.*)\)$', call, re.S)
    a, kw = eval('(lambda *a, **k: (a, k))(%s)' % m.group(2))
    name = m.group(1)
    tr = []
    try:
        if name == '_ob_field':
            a = FIELD_ROWS[a[0] if a else kw['r']]
            name = '_replay_field'
        elif name == '_ob_comp':
            a = COMP_ROWS[a[0] if a else kw['r']]
            name = '_replay_comp'
        elif name == '_ob_inst':
            a = INST_ROWS[a[0] if a else kw['r']]
            name = '_replay_inst'
        if name == '_replay_field':
            vi, si, k = a
            v = T.VERSIONS[vi]
            field_row(v, T.SEGS[v][si], k, tr)
        elif name == '_replay_comp':
            vals = dict(zip(['vi', 'di', 'j', 'k'], a))
            v = T.VERSIONS[vals['vi']]
            comp_row(v, T.DTS[v][vals['di']], vals['j'], vals.get('k', -1), tr)
        elif name == '_replay_inst':
            vals = dict(zip(['vi', 'kind', 'ni'], a))
            v = T.VERSIONS[vals['vi']]
            nm = (T.SEGS[v] if vals['kind'] == 0 else T.DTS[v])[vals['ni']]
            tr.append('instantiate %s %s %s' % (v, 'Segment' if vals['kind'] == 0 else 'Field(ZZZ_1, datatype=)', nm))
            inst_row(v, vals['kind'], nm, tr)
        elif name == '_ob_open':
            vals = dict(zip(['oi', 'i', 'j', 'order'], a))
            vals.update(kw)
            open_row(vals['oi'], vals['i'], vals['j'], vals['order'], tr)
    except Exception as e:
        tr.append('raised %s: %s' % (type(e).__name__, e))
    return '\n'.join(tr)


SPEC = {
    'property': 'C02',
    'files': ['hl7apy/core.py', 'hl7apy/parser.py', 'hl7apy/__init__.py'] +
             ['hl7apy/v%s/segments.py' % v.replace('.', '_') for v in T.VERSIONS] +
             ['hl7apy/v%s/datatypes.py' % v.replace('.', '_') for v in T.VERSIONS],
    'functions_encoded': ['hl7apy.core.Segment.__init__/find_child_reference/to_er7/_get_children', 'hl7apy.core.ElementFinder._parse_structure',
                          'hl7apy.core.ElementList.set/get_ordered_children', 'hl7apy.core.Field.__init__/_do_traversal/'
                          '_get_traversal_children/to_er7', 'hl7apy.parser.parse_segment/parse_fields/parse_field/parse_components/'
                          'parse_component/parse_subcomponents', 'hl7apy.load_reference / v2_*.get / find'],
    'assumptions': ['TOLERANT level; value token X / A / B (ordinary text)',
                    'row indices are symbolic and exhausted by CrossHair/z3 (binary-search forks); the library then runs '
                    'concretely on the row - per row the solver adds exhaustion, not abstraction (every row is a distinct dict key)',
                    'E3: the generic code depends on a table row only through (ordinal, name, number in name, datatype); the '
                    'reduction is exercised by replaying every reported row through the public API'],
    'outside': ['open-ended indices above the defined count + %d; values other than plain text; STRICT' % NOPEN],
    'stubs': [],
    'obligations': [
        {'name': 'R.fields', 'fn': '_ob_field', 'parts': 48, 'cond_timeout': 1200, 'path_timeout': 60,
         'bound': 'ALL field rows: %d versions x every segment x every field ordinal (%d rows)' % (NV, NF)},
        {'name': 'R.comps', 'fn': '_ob_comp', 'parts': 32, 'cond_timeout': 1200, 'path_timeout': 60,
         'bound': 'ALL component and subcomponent rows (%d), via Field(ZZZ_1, datatype=D) and positional traversal' % NC},
        {'name': 'R.inst', 'fn': '_ob_inst', 'parts': 16, 'cond_timeout': 600, 'path_timeout': 60,
         'bound': 'every segment entry and every complex datatype of every version is instantiated'},
        {'name': 'Z.open', 'fn': '_ob_open', 'parts': 32, 'cond_timeout': 1200, 'path_timeout': 60,
         'bound': '%d open-ended (version, segment) pairs x every i<j<=%d beyond the defined count x both orders' % (NO, NOPEN)},
        {'name': 'V.varies', 'fn': '_ob_varies', 'parts': 16, 'cond_timeout': 1200, 'path_timeout': 60,
         'bound': '%d fields of type varies (all versions; incl. one field beyond the defined count of every open-ended segment) x component '
                  'j<=%d x (whole component | subcomponent 1..2) x %d ways of writing it' % (NVAR, VMAXJ, NVW)},
        {'name': 'T.fields', 'engine': 'E3', 'worker': '_e3_fields',
         'bound': 'z3 over ground facts for ALL field rows: exists row with number != ordinal+1; exists segment without children'},
        {'name': 'T.comps', 'engine': 'E3', 'worker': '_e3_comps',
         'bound': 'z3 over ground facts for ALL component rows: exists row with number != ordinal+1'},
    ],
}
