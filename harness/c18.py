"""C18 - a message profile replaces the standard structure wherever it speaks (E1).

Profiles are synthesised from the standard table entry of a message structure by ONE symbolic edit
   0 identity (restates the standard)          1 tighten: a repeatable top-level segment may occur once
   2 require: an optional top-level segment becomes required      3 forbid: an optional top-level segment is dropped
   4 retype: a leaf field of a segment changes datatype (ST <-> NM)
and messages are created through a symbolic creation path (parse / traversal / add_* helpers).
"""
import os
import pickle
import re

from vlib.chglue import PART_K, PART_N, TIER, THOROUGH, REPO, in_part, reset_defaults, concrete
from harness.c02 import bsearch
from harness import tables as T
from harness import builder as B
from harness.corpus import _report
from hl7apy.core import Message, Segment
from hl7apy.parser import parse_message
from hl7apy.exceptions import MessageProfileNotFound, LegacyMessageProfile, MaxChildLimitReached, ChildNotValid, HL7apyException

import random as _random
STRUCTS = [('2.5', 'ADT_A01'), ('2.5', 'OML_O33'), ('2.5', 'RSP_K21'), ('2.3', 'ADT_A01'), ('2.4', 'ORM_O01'), ('2.6', 'ADT_A04'),
           ('2.7', 'ORU_R01'), ('2.5', 'SIU_S12'), ('2.5.1', 'ADT_A08'), ('2.8', 'ADT_A01'), ('2.5', 'VXU_V04')]
STRUCTS = [(v, m) for v, m in STRUCTS if m in T.LIBS[v].MESSAGES]
_rest = [(v, m) for v in T.VERSIONS for m in T.MSGS[v] if (v, m) not in STRUCTS and m == m.upper() and '_' in m and
         all(n in T.SEGS[v] and T.seg_children(v, n) is not None for n in B.structure_names(T.LIBS[v].MESSAGES[m]))]
STRUCTS += _random.Random(1800 + __import__('vlib.chglue', fromlist=['SEED']).SEED).sample(_rest, 120 if THOROUGH else 30)
NS = len(STRUCTS)
EDITS = ['identity', 'tighten', 'require', 'forbid', 'retype', 'retype-in-group']
NE = len(EDITS)
PATHS = ['parse', 'traversal', 'add_helpers', 'parse-flat', 'value-assign']
NPATHS = len(PATHS)
NT = 3


def std(v, m):
    return T.LIBS[v].MESSAGES[m]


def edit_children(ref, fn):
    """new structure with fn applied to the tuple of top-level children"""
    return (ref[0], tuple(fn(list(ref[1])))) + tuple(ref[2:])


def make_profile(v, m, edit, t):
    """returns (profile dict, info) ; info names the child the edit speaks about"""
    ref = std(v, m)
    top = list(ref[1])
    kind = EDITS[edit]
    allnames = B.structure_names(ref)
    once = lambda name: allnames.count(name) == 1      # the edit speaks about a segment that has a single place in the structure
    if kind == 'identity':
        return {m: ref}, None
    if kind == 'tighten':
        cands = [k for k, c in enumerate(top) if c[3] == 'SEG' and c[2][1] == -1 and c[0] != 'MSH' and once(c[0])]
        if not cands:
            return None, None
        k = cands[t % len(cands)]
        c = top[k]
        top[k] = (c[0], c[1], (c[2][0], 1), c[3])
        return {m: (ref[0], tuple(top))}, c[0]
    if kind in ('require', 'forbid'):
        cands = [k for k, c in enumerate(top) if c[3] == 'SEG' and c[2][0] == 0 and T.seg_children(v, c[0]) and once(c[0])]
        if not cands:
            return None, None
        k = cands[t % len(cands)]
        c = top[k]
        if kind == 'require':
            top[k] = (c[0], c[1], (1, c[2][1]), c[3])
        else:
            del top[k]
        return {m: (ref[0], tuple(top))}, c[0]
    if kind == 'retype-in-group':
        # a leaf field of the first segment of a repeatable top-level group changes datatype
        for k, c in enumerate(top):
            if c[3] != 'GRP' or c[2][1] == 1:
                continue
            members = list(c[1][1])
            if not members or members[0][3] != 'SEG' or members[0][2] != (1, 1) or not once(members[0][0]):
                continue
            seg = members[0]
            fields = list(seg[1][1])
            leafs = [q for q, f in enumerate(fields) if f[1][0] == 'leaf' and f[1][2] in ('ST', 'NM')]
            if not leafs:
                continue
            q = leafs[t % len(leafs)]
            f = fields[q]
            new_dt = 'NM' if f[1][2] == 'ST' else 'ST'
            fields[q] = (f[0], (f[1][0], f[1][1], new_dt) + tuple(f[1][3:]), f[2], f[3])
            members[0] = (seg[0], (seg[1][0], tuple(fields)), seg[2], seg[3])
            top[k] = (c[0], (c[1][0], tuple(members)), c[2], c[3])
            return {m: (ref[0], tuple(top))}, (c[0], seg[0], f[0], new_dt, f[1][2], [B.flatten(B.message_nodes(c[1], 'required', False))])
        return None, None
    # retype: first top-level segment (not MSH) having an ST / NM leaf field
    for k, c in enumerate(top):
        if c[3] != 'SEG' or c[0] == 'MSH' or not once(c[0]):
            continue
        fields = list(c[1][1])
        leafs = [q for q, f in enumerate(fields) if f[1][0] == 'leaf' and f[1][2] in ('ST', 'NM')]
        if not leafs:
            continue
        q = leafs[t % len(leafs)]
        f = fields[q]
        new_dt = 'NM' if f[1][2] == 'ST' else 'ST'
        fields[q] = (f[0], (f[1][0], f[1][1], new_dt) + tuple(f[1][3:]), f[2], f[3])
        top[k] = (c[0], (c[1][0], tuple(fields)), c[2], c[3])
        return {m: (ref[0], tuple(top))}, (c[0], f[0], new_dt, f[1][2])
    return None, None


def build(v, m, path, profile, extra_segments, strict=False):
    """message conforming to the standard structure (+ extra top-level segment lines), created through `path`"""
    level = 1 if strict else 2
    text = B.message_text(v, m, 'required')
    lines = text.split('\r')
    order = B.structure_names(std(v, m))
    for ln in extra_segments:
        # put the line where the structure has that segment: before the first later-in-structure segment present
        pos = len(lines)
        if ln[:3] in order:
            later = order[order.index(ln[:3]) + 1:]
            for q, have in enumerate(lines[1:], 1):
                if have[:3] in later and have[:3] != ln[:3]:
                    pos = q
                    break
        lines.insert(pos, ln)
    if path == 0:
        return parse_message('\r'.join(lines), validation_level=level, message_profile=profile)
    if path == 3:
        return parse_message('\r'.join(lines), validation_level=level, message_profile=profile, find_groups=False)
    if path == 4:
        # (the builder's text declares the four standard delimiters; a 2.7+ Message would default to five)
        msg = Message(m, version=v, validation_level=level, reference=profile,
                      encoding_chars={'FIELD': '|', 'COMPONENT': '^', 'REPETITION': '~', 'ESCAPE': '\\', 'SUBCOMPONENT': '&',
                                      'GROUP': '\r', 'SEGMENT': '\r'})
    else:
        msg = Message(m, version=v, validation_level=level, reference=profile)
    if path == 4:
        msg.value = '\r'.join(lines)       # whole-message assignment: the children come from the parser, the structure from the profile
        return msg
    msg.msh = lines[0]
    # group membership comes from the parser for nested segments: creation by API uses the top-level segments only
    top_names = [c[0] for c in std(v, m)[1] if c[3] == 'SEG']
    for ln in lines[1:]:
        name = ln[:3]
        if name not in top_names:
            continue
        if path == 1:
            # traversal: the first occurrence is created by assignment through the proxy, further ones are added
            if len(getattr(msg, name.lower())) == 0:
                setattr(msg, name.lower(), ln)
            else:
                s = Segment(name, version=v, validation_level=level, reference=_child_ref(msg, name))
                s.value = ln
                msg.add(s)
        else:
            s = msg.add_segment(name)
            s.value = ln
    return msg


def _child_ref(msg, name):
    try:
        return msg.structure_by_name[name]['ref']
    except Exception:
        return None


def check(si, edit, t, path, trace=None):
    reset_defaults()
    v, m = STRUCTS[si]
    profile, info = make_profile(v, m, edit, t)
    if profile is None:
        return True
    kind = EDITS[edit]
    top_only = all(c[3] == 'SEG' for c in std(v, m)[1] if c[2][0] >= 1)
    if path not in (0, 4) and not top_only:
        # required groups cannot be created conformingly through the top-level helpers alone: parse path only
        return True
    ok = True
    note = []
    base_errors = _report(build(v, m, 0, None, []))[1]
    if any(e.startswith('Invalid children detected for <Message') or e.startswith('Missing required child %s.' % m) for e in base_errors):
        return True      # the reference builder cannot make a standard-conforming instance of this structure: nothing to compare
    if kind == 'retype-in-group':
        if path != 0:
            return True         # groups are created by the parser
        grp, seg, fld, new_dt, old_dt, (names,) = info
        one = [B.segment_text(v, n, 'required') if T.seg_children(v, n) else n for n in names]
        # message with the required children and TWO repetitions of the group
        base_lines = B.message_text(v, m, 'required').split('\r')
        present = [ln[:3] for ln in base_lines]
        if names[0] in present:
            q = present.index(names[0])
            lines = base_lines[:q + len(names)] + one + base_lines[q + len(names):]
        else:
            order = B.structure_names(std(v, m))
            later = order[order.index(names[0]) + 1:]
            pos = len(base_lines)
            for q, have in enumerate(base_lines[1:], 1):
                if have[:3] in later and have[:3] not in names:
                    pos = q
                    break
            lines = base_lines[:pos] + one + one + base_lines[pos:]
        text = '\r'.join(lines)
        a = parse_message(text, validation_level=2, message_profile=profile)
        b = parse_message(text, validation_level=2)
        ga, gb = getattr(a, grp.lower()), getattr(b, grp.lower())
        ok = len(ga) == 2 and len(gb) == 2
        got = []
        for rep in range(min(len(ga), 2)):
            fa = getattr(getattr(ga[rep], seg.lower()), fld.lower())
            fb = getattr(getattr(gb[rep], seg.lower()), fld.lower())
            got.append((fa.datatype, fb.datatype))
            ok = ok and fa.datatype == new_dt and fb.datatype == old_dt
        note.append('%s.%s.%s in two repetitions: (with profile, without) = %r ; expected (%r, %r) twice' % (grp, seg, fld, got, new_dt, old_dt))
        if trace is not None:
            trace.append('%s %s edit=%s t=%d\n  %s' % (v, m, kind, t, '\n  '.join(note)))
        return ok
    if kind == 'identity':
        a = build(v, m, path, profile, [])
        b = build(v, m, path, None, [])
        ok = a.to_er7() == b.to_er7() and _report(a) == _report(b) and _shape(a) == _shape(b)
        note.append('identity profile: encodings equal=%s reports equal=%s' % (a.to_er7() == b.to_er7(), _report(a) == _report(b)))
    elif kind == 'tighten':
        line = B.segment_text(v, info, 'required')
        extra = [line, line]
        a = build(v, m, path, profile, extra)
        b = build(v, m, path, None, extra)
        ea, eb = _report(a)[1], _report(b)[1]
        want = 'Child limit exceeded %s.%s' % (m, info)
        ok = want in ea and want not in eb
        note.append('two %s: profile errors %r ; standard errors %r' % (info, ea, eb))
        # STRICT + profile: the second one is refused at creation
        try:
            build(v, m, 2 if top_only else 0, profile, extra, strict=True)
            ok2 = False
        except MaxChildLimitReached:
            ok2 = True
        except Exception as e:
            note.append('STRICT creation raised %s: %s' % (type(e).__name__, e))
            ok2 = True   # another STRICT refusal (e.g. an invalid builder value) is not this property's subject
        ok = ok and ok2
    elif kind == 'require':
        a = build(v, m, path, profile, [])
        b = build(v, m, path, None, [])
        ea, eb = _report(a)[1], _report(b)[1]
        want = 'Missing required child %s.%s' % (m, info)
        ok = want in ea and want not in eb
        note.append('no %s: profile errors %r ; standard errors %r' % (info, ea, eb))
    elif kind == 'forbid':
        extra = [B.segment_text(v, info, 'required')]
        a = build(v, m, path, profile, extra)
        b = build(v, m, path, None, extra)
        ea, eb = _report(a)[1], _report(b)[1]
        ok = any(e.startswith('Invalid children detected for <Message %s>' % m) for e in ea) and \
            not any(e.startswith('Invalid children detected for <Message') for e in eb)
        note.append('one %s: profile errors %r ; standard errors %r' % (info, ea, eb))
    else:
        seg, fld, new_dt, old_dt = info
        extra = []
        if seg not in [ln[:3] for ln in B.message_text(v, m, 'required').split('\r')]:
            extra = [B.segment_text(v, seg, 'required')]
        a = build(v, m, path, profile, extra)
        b = build(v, m, path, None, extra)
        fa = getattr(getattr(a, seg.lower()), fld.lower())
        fb = getattr(getattr(b, seg.lower()), fld.lower())
        # datatype of the (possibly lazily created) child comes from the profile / from the standard
        ok = fa.datatype == new_dt and fb.datatype == old_dt
        note.append('%s.%s datatype with profile %r (want %r), without %r (want %r)' % (seg, fld, fa.datatype, new_dt, fb.datatype, old_dt))
        setattr(getattr(a, seg.lower()), fld.lower(), '12')
        setattr(getattr(b, seg.lower()), fld.lower(), '12')
        da = getattr(getattr(a, seg.lower()), fld.lower())[0].datatype
        db = getattr(getattr(b, seg.lower()), fld.lower())[0].datatype
        ok = ok and da == new_dt and db == old_dt
        ea, eb = _report(a)[1], _report(b)[1]
        ok = ok and not any(('%s.%s' % (seg, fld)) in e and e.startswith('Datatype') for e in ea + eb)
        note.append('after assignment: %r / %r ; datatype errors: %r / %r' % (da, db, [e for e in ea if e.startswith('Datatype')], [e for e in eb if e.startswith('Datatype')]))
        # the same child written with a datatype OBJECT of the type each side declares (ElementList.set builds the child itself)
        from hl7apy.factories import datatype_factory
        for msg_, dt_, tag in ((a, new_dt, 'profile'), (b, old_dt, 'standard')):
            try:
                setattr(getattr(msg_, seg.lower()), fld.lower(), datatype_factory(dt_, '34', version=v, validation_level=2))
                got_ = getattr(getattr(msg_, seg.lower()), fld.lower())
                dd, tx = got_[0].datatype, got_[0].to_er7()
            except HL7apyException as e:
                dd, tx = type(e).__name__, str(e)
            errs = [e for e in _report(msg_)[1] if e.startswith('Datatype') and ('%s.%s' % (seg, fld)) in e]
            ok = ok and dd == dt_ and tx == '34' and not errs
            note.append('%s side, %s object assigned: child datatype/text %r %r (want %r, \'34\') ; datatype errors %r' % (tag, dt_, dd, tx, dt_, errs))
    if trace is not None:
        trace.append('%s %s edit=%s t=%d about %r, creation path %s\n  %s' % (v, m, kind, t, info, PATHS[path], '\n  '.join(note)))
    return ok


def _shape(el):
    if el.classname == 'SubComponent':
        return (el.name, el.datatype)
    dt = el.datatype if el.classname in ('Field', 'Component') else None
    return (el.classname, el.name, dt, tuple(_shape(c) for c in el.children))


def lookup_errors(trace=None):
    """MessageProfileNotFound / LegacyMessageProfile on both creation paths; the shipped profiles"""
    reset_defaults()
    ok = True
    good = std('2.5', 'ADT_A01')
    text = B.message_text('2.5', 'ADT_A01', 'required')
    for prof, exc in (({'XXX_X01': good}, MessageProfileNotFound), ({}, MessageProfileNotFound),
                      ({'ADT_A01': ('mp', 'sequence', 'ADT_A01', ())}, LegacyMessageProfile)):
        for how in ('ctor', 'parse'):
            try:
                if how == 'ctor':
                    Message('ADT_A01', version='2.5', reference=prof)
                else:
                    parse_message(text, message_profile=prof)
                got = None
            except Exception as e:
                got = type(e)
            if got is not exc:
                ok = False
                if trace is not None:
                    trace.append('%s with %r: raised %r, expected %s' % (how, list(prof), got, exc.__name__))
    # message names are case-insensitive, with a profile as without
    for name in ('adt_a01', 'Adt_A01'):
        try:
            a, b = Message(name, version='2.5', reference={'ADT_A01': good}), Message(name, version='2.5')
            same = a.name == b.name == 'ADT_A01'
        except Exception as e:
            same = False
            if trace is not None:
                trace.append('Message(%r, reference=restating profile) raised %s' % (name, type(e).__name__))
        ok = ok and same
    legacy = os.path.join(REPO, 'tests', 'profiles', 'old_pharm_h4')
    shipped = os.path.join(REPO, 'tests', 'profiles', 'iti_21')
    if os.path.exists(legacy):
        with open(legacy, 'rb') as f:
            mp = pickle.load(f)
        try:
            Message('RAS_O17', reference=mp)
            ok = False
        except LegacyMessageProfile:
            pass
    if os.path.exists(shipped):
        with open(shipped, 'rb') as f:
            mp = pickle.load(f)
        m = Message('RSP_K21', version='2.5', reference=mp)
        # every field created by traversal carries the profile's datatype and cardinality
        for c in mp['RSP_K21'][1]:
            if c[3] != 'SEG':
                continue
            seg = getattr(m, c[0].lower())
            for f in c[1][1]:
                fld = getattr(seg, f[0].lower())
                if fld.datatype != f[1][2]:
                    ok = False
                    if trace is not None:
                        trace.append('iti_21: %s.%s datatype %r, profile says %r' % (c[0], f[0], fld.datatype, f[1][2]))
            if dict(seg.repetitions) != {f[0]: f[2] for f in c[1][1]}:
                ok = False
        try:
            Message('ADT_A01', reference=mp)
            ok = False
        except MessageProfileNotFound:
            pass
    return ok

# ---- deep retype: the profile changes the datatype of one SUBCOMPONENT; the child is created in six ways -----------------------
WAYS = ['parse', 'segment text', 'field text', 'component text', 'traversal assignment', 'traversal .value']
NWAYS = len(WAYS)


def make_deep_profile(v, m, t):
    """(profile, (seg, fld, comp, sub, new_dt, old_dt, i, j, k)) - the t-th (segment, field, component, subcomponent) chain of a
    top-level segment that has a single place in the structure, whose subcomponent is an ST/NM leaf"""
    ref = std(v, m)
    top = list(ref[1])
    allnames = B.structure_names(ref)
    chains = []
    for a, c in enumerate(top):
        if c[3] != 'SEG' or c[0] == 'MSH' or allnames.count(c[0]) != 1 or c[1][0] != 'sequence':
            continue
        for i, f in enumerate(c[1][1]):
            if f[1][0] != 'sequence' or f[2][1] == 0:
                continue
            for j, cp in enumerate(f[1][1]):
                if cp[1][0] != 'sequence' or cp[2][1] == 0:
                    continue
                for k, sb in enumerate(cp[1][1]):
                    if sb[1][0] == 'leaf' and sb[1][2] in ('ST', 'NM') and sb[2][1] != 0:
                        chains.append((a, i, j, k))
                        break          # one subcomponent per component is enough
                if len(chains) > 8:
                    break
            if len(chains) > 8:
                break
        if len(chains) > 8:
            break
    if not chains:
        return None, None
    a, i, j, k = chains[t % len(chains)]
    c = top[a]
    fields = list(c[1][1])
    f = fields[i]
    comps = list(f[1][1])
    cp = comps[j]
    subs = list(cp[1][1])
    sb = subs[k]
    old_dt = sb[1][2]
    new_dt = 'NM' if old_dt == 'ST' else 'ST'
    subs[k] = (sb[0], (sb[1][0], sb[1][1], new_dt) + tuple(sb[1][3:]), sb[2], sb[3])
    comps[j] = (cp[0], (cp[1][0], tuple(subs)) + tuple(cp[1][2:]), cp[2], cp[3])
    fields[i] = (f[0], (f[1][0], tuple(comps)) + tuple(f[1][2:]), f[2], f[3])
    top[a] = (c[0], (c[1][0], tuple(fields)) + tuple(c[1][2:]), c[2], c[3])
    pos = lambda name: int(name.rsplit('_', 1)[1])
    return {m: (ref[0], tuple(top)) + tuple(ref[2:])}, (c[0], f[0], cp[0], sb[0], new_dt, old_dt, pos(f[0]), pos(cp[0]), pos(sb[0]))


def deep_check(si, t, way, level, trace=None):
    reset_defaults()
    v, m = STRUCTS[si]
    profile, info = make_deep_profile(v, m, t)
    if profile is None:
        return True
    seg, fld, comp, sub, new_dt, old_dt, i, j, k = info
    subtext = '&' * (k - 1) + '1'
    fieldtext = '^' * (j - 1) + subtext
    segtext = seg + '|' * i + fieldtext
    got = []
    for prof in (profile, None):
        try:
            if way == 0:
                lines = B.message_text(v, m, 'required').split('\r')
                lines = [ln for ln in lines if ln[:3] != seg]
                order = B.structure_names(std(v, m))
                later = order[order.index(seg) + 1:]
                at = len(lines)
                for q, have in enumerate(lines[1:], 1):
                    if have[:3] in later:
                        at = q
                        break
                lines.insert(at, segtext)
                msg = parse_message('\r'.join(lines), validation_level=2, message_profile=prof)   # (the builder's other lines are for TOLERANT)
            else:
                msg = Message(m, version=v, validation_level=level, reference=prof)
                if way == 1:
                    setattr(msg, seg.lower(), segtext)
                elif way == 2:
                    setattr(getattr(msg, seg.lower()), fld.lower(), fieldtext)
                elif way == 3:
                    setattr(getattr(getattr(msg, seg.lower()), fld.lower()), comp.lower(), subtext)
                elif way == 4:
                    setattr(getattr(getattr(getattr(msg, seg.lower()), fld.lower()), comp.lower()), sub.lower(), '1')
                else:
                    getattr(getattr(getattr(getattr(msg, seg.lower()), fld.lower()), comp.lower()), sub.lower()).value = '1'
            leaf = getattr(getattr(getattr(getattr(msg, seg.lower()), fld.lower()), comp.lower()), sub.lower())
            got.append((leaf[0].datatype, msg.to_er7().split('\r')[-1] if way else None))
        except Exception as e:
            got.append(('raised %s: %s' % (type(e).__name__, e), None))
    ok = got[0][0] == new_dt and got[1][0] == old_dt
    if trace is not None:
        trace.append('%s %s: profile retypes %s.%s.%s.%s from %s to %s; child created by %s under level %d\n  with the profile: %r\n  without: %r'
                     % (v, m, seg, fld, comp, sub, old_dt, new_dt, WAYS[way], level, got[0], got[1]))
    return ok


def _ob_deep(si: int, t: int, way: int, level: int) -> bool:
    """
    pre: 0 <= si < NS and 0 <= t < NT and 0 <= way < NWAYS and 1 <= level <= 2
    pre: in_part(si)
    post: _
    """
    si, t, way, level = bsearch(si, NS), bsearch(t, NT), bsearch(way, NWAYS), bsearch(level - 1, 2) + 1
    with concrete():
        return deep_check(si, t, way, level)


def _ob_edit(si: int, edit: int, t: int, path: int) -> bool:
    """
    pre: 0 <= si < NS and 0 <= edit < NE and 0 <= t < NT and 0 <= path < NPATHS
    pre: in_part(si * NE + edit)
    post: _
    """
    si, edit, t, path = bsearch(si, NS), bsearch(edit, NE), bsearch(t, NT), bsearch(path, NPATHS)
    with concrete():
        if edit == 0 and t > 0:
            return True
        return check(si, edit, t, path)


def _ob_lookup(x: int) -> bool:
    """
    pre: 0 <= x < 1
    post: _
    """
    x = bsearch(x, 1)
    with concrete():
        return lookup_errors()


def explain(call):
    m = re.match(r'(\w+)\((.*)\)$', call, re.S)
    a, kw = eval('(lambda *a, **k: (a, k))(%s)' % m.group(2))
    tr = []
    try:
        if m.group(1) == '_ob_edit':
            v = dict(zip(['si', 'edit', 't', 'path'], a)); v.update(kw)
            check(v['si'], v['edit'], v['t'], v['path'], tr)
        elif m.group(1) == '_ob_deep':
            v = dict(zip(['si', 't', 'way', 'level'], a)); v.update(kw)
            deep_check(v['si'], v['t'], v['way'], v['level'], tr)
        else:
            lookup_errors(tr)
    except Exception as e:
        tr.append('raised %s: %s' % (type(e).__name__, e))
    return '\n'.join(tr)


SPEC = {
    'property': 'C18',
    'files': ['hl7apy/core.py', 'hl7apy/parser.py', 'hl7apy/validation.py', 'hl7apy/__init__.py', 'tests/profiles/iti_21'],
    'functions_encoded': ['hl7apy.core.Message.__init__ (profile lookup, legacy detection)', 'hl7apy.parser.parse_message (message_profile)',
                          'hl7apy.core.ElementList.create_element/set', 'hl7apy.core.ElementFinder.get_structure/_parse_structure',
                          'hl7apy.core.Element.validate -> Validator.validate(reference=profile)'],
    'assumptions': ['profiles = standard table entry + one edit of a top-level child (or of one leaf field of a top-level segment)',
                    'conforming messages from harness/builder.py; creation by traversal / add_* covers top-level segments only '
                    '(structures whose required children are all segments)'],
    'outside': ['profiles not derivable by one edit; edits inside groups other than retype-in-group; structures outside the slice (%d)' % NS],
    'stubs': [],
    'obligations': [
        {'name': 'edit', 'fn': '_ob_edit', 'parts': 16, 'cond_timeout': 900, 'path_timeout': 60,
         'bound': '%d structures x edits %r x target t<%d x creation paths %r' % (NS, EDITS, NT, PATHS)},
        {'name': 'deep', 'fn': '_ob_deep', 'parts': 16, 'cond_timeout': 900, 'path_timeout': 60,
         'bound': '%d structures x %d subcomponent chains x creation ways %r x both levels: the subcomponent retyped by the profile has '
                  'the profile\'s datatype (and the standard one without the profile)' % (NS, NT, WAYS)},
        {'name': 'lookup', 'fn': '_ob_lookup', 'parts': 1, 'cond_timeout': 300, 'path_timeout': 60,
         'bound': 'MessageProfileNotFound / LegacyMessageProfile on constructor and parser; shipped iti_21 and old_pharm_h4 profiles'},
    ],
}
