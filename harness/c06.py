"""C06 - escaping is delimiter-safe and idempotent for every delimiter set.

E2 (pysym): the REAL classes  <version>.ST(value).to_er7(encoding_chars)  - i.e. TextualDataType._escape_value,
   _get_translations, _get_escape_char_regex of hl7apy/base_datatypes.py and the v2.7 overrides - are executed on a
   symbolic string of n guarded slots (every printable ASCII character) with SYMBOLIC field / component / subcomponent /
   repetition (/ truncation) delimiters ranging over all punctuation marks, pairwise distinct; the escape character is
   concrete per run (it is spliced into a regex).  z3 decides per (family, escape char, n):
     O1  no delimiter in the output            O2  the output tokenises into ordinary characters and ESC letter ESC
     O3  escaping the output again changes nothing      O4  well-formed delimiter-free input is a fixpoint
E1 (CrossHair, unmodified class and real `re`, default delimiters): the same four obligations for every string up to 3 (4)
   characters, and O6: assigning ST(s) to a subcomponent of a populated segment leaves the separator counts unchanged.
"""
import multiprocessing
import os
import re
import time

from vlib.chglue import PART_K, PART_N, TIER, THOROUGH, KNOWN_OFF, in_part, reset_defaults, concrete, known_open, forked
import hl7apy
from hl7apy.core import Segment
from hl7apy.parser import parse_segment

PUNCT = [ord(c) for c in '!"#$%&\'()*+,-./:;<=>?@[\\]^_`{|}~']
ESCAPES = ['\\', '/', '!', '*', '$', '?', '.']
ROLES4 = ['FIELD', 'COMPONENT', 'SUBCOMPONENT', 'REPETITION']
LETTERS = {'base': 'HNFSTRE', 'v27': 'HNFSTREL'}
NMAX = 32 if THOROUGH else 16
CROSS_NMAX = 12      # E2 queries up to this length are decided a second time by cvc5 (thorough tier)
FAMILY_VERSION = {'base': '2.5', 'v27': '2.7'}


def family_class(family):
    """family is 'base' / 'v27' or an explicit '<version>:<datatype>' representative"""
    if ':' in family:
        v, name = family.split(':')
        return hl7apy.load_library(v).get_base_datatypes()[name]
    return hl7apy.load_library(FAMILY_VERSION[family]).ST


def family_has_truncation(family):
    return (family.split(':')[0] >= '2.7') if ':' in family else family == 'v27'


def family_letters(family):
    return LETTERS['v27' if family_has_truncation(family) else 'base']


def kernel_families():
    """one representative '<version>:<datatype>' per distinct (escape kernel, version class): every textual base datatype of
    every version is checked through its own kernel with the delimiter roles its version has"""
    reps = {}
    for v in sorted(hl7apy.SUPPORTED_LIBRARIES):
        lib = hl7apy.load_library(v)
        for name, cls in sorted(lib.get_base_datatypes().items()):
            if not hasattr(cls, '_escape_value') or name == 'TN':     # TN validates its value with a regex first
                continue
            key = tuple(getattr(cls, m) for m in ('_escape_value', '_get_translations', '_get_escape_char_regex', 'to_er7')) + (v >= '2.7',)
            reps.setdefault(key, []).append('%s:%s' % (v, name))
    return [sorted(x)[0] for x in reps.values()], {sorted(x)[0]: x for x in reps.values()}


def class_families():
    """which (version, datatype) classes share the escape kernel of each family (checked by identity of the functions)"""
    out = {}
    for v in sorted(hl7apy.SUPPORTED_LIBRARIES):
        lib = hl7apy.load_library(v)
        for name, cls in sorted(lib.get_base_datatypes().items()):
            if not hasattr(cls, '_escape_value'):
                continue
            key = tuple(getattr(cls, m) for m in ('_escape_value', '_get_translations', '_get_escape_char_regex'))
            fam = None
            for f in ('base', 'v27'):
                ref = family_class(f)
                if key == tuple(getattr(ref, m) for m in ('_escape_value', '_get_translations', '_get_escape_char_regex')):
                    fam = f
            out.setdefault(fam, []).append('%s.%s' % (v, name))
    return out


# ---- plain reference predicates (used by replays and by the E1 cross-check) ----------------------------------------
def tokenises(text, esc, letters):
    i = 0
    while i < len(text):
        if text[i] == esc:
            if i + 2 <= len(text) - 1 and text[i + 1] in letters and text[i + 2] == esc:
                i += 3
                continue
            return False
        i += 1
    return True


def protected_family(s, ec, letters, roles):
    """the recorded finding: after delimiter replacement, some escape character is shielded from escaping by the
    look-behind (ESC letter before it) or the look-ahead (letter ESC after it) although it is not part of a sequence"""
    esc = ec['ESCAPE']
    v = s
    for r, letter in zip(roles, 'FSTRL'):
        v = v.replace(ec[r], esc + letter + esc)
    for j, ch in enumerate(v):
        if ch != esc:
            continue
        lb = j >= 2 and v[j - 2] == esc and v[j - 1] in letters
        la = j + 2 < len(v) and v[j + 1] in letters and v[j + 2] == esc
        if lb or la:
            return True
    return False


def eval_obligation(ob, family, esc, delims, s):
    """evaluate one obligation on concrete values against the unmodified class and the real re module"""
    roles = ROLES4 + (['TRUNCATION'] if family_has_truncation(family) and len(delims) == 5 else [])
    ec = dict(zip(roles, delims))
    ec['ESCAPE'] = esc
    cls = family_class(family)
    letters = family_letters(family)
    out = cls(s, validation_level=2).to_er7(ec)
    if ob == 'O1':
        return not any(d in out for d in delims)
    if ob == 'O2':
        return tokenises(out, esc, letters)
    if ob == 'O3':
        return cls(out, validation_level=2).to_er7(ec) == out
    if ob == 'O4':
        if any(d in s for d in delims) or not tokenises(s, esc, letters):
            return True
        return out == s
    raise ValueError(ob)


def _replay(ob, family, esc, delims, s):
    return eval_obligation(ob, family, esc, delims, s)


# ---- E2 ---------------------------------------------------------------------------------------------------------------
def _e2_task(args):
    family, esc, n, exclude_known, timeout_ms = args[:5]
    no_trunc = len(args) > 5 and args[5]
    import z3
    import pysym
    from pysym import SymStr, SymChar, reshim, Or, And, Not, Unsupported, cross
    import hl7apy.base_datatypes as bd
    import hl7apy.v2_7.base_datatypes as bd27
    bd.re = reshim
    bd27.re = reshim
    t0 = time.time()
    res = {'family': family + ('/4' if len(args) > 5 and args[5] else ''), 'esc': esc, 'n': n, 'queries': 0, 'solver_s': 0.0, 'cex': [], 'unknown': [], 'unsat': 0, 'known_family_sat': None}
    res.update(cross.new_stats())
    try:
        s = z3.Solver()
        s.set('timeout', timeout_ms)
        value = SymStr.fresh('s', n, solver=s)
        dom = [p for p in PUNCT if p != ord(esc)]
        roles = ROLES4 + (['TRUNCATION'] if family_has_truncation(family) and not no_trunc else [])
        dvars = [z3.BitVec('d_%s' % r, 8) for r in roles]
        for dv in dvars:
            s.add(z3.Or(*[dv == p for p in dom]))
        s.add(z3.Distinct(*dvars))
        ec = {r: SymChar(dv, dom) for r, dv in zip(roles, dvars)}
        ec['ESCAPE'] = esc
        cls = family_class(family)
        letters = set(ord(c) for c in family_letters(family))
        out = cls(value, validation_level=2).to_er7(ec)
        info1 = dict(reshim.LAST)
        if not isinstance(out, SymStr):
            raise Unsupported('to_er7 returned %r' % type(out))
        is_delim = lambda c: Or(*[pysym.char_eq(c, e) for e in [ec[r] for r in roles]])
        E = ord(esc)

        def tok_delta(st, c):
            if st == 0:
                e = pysym.char_eq(c, E)
                return [(e, 1), (Not(e), 0)]
            if st == 1:
                l = pysym.char_in(c, letters)
                return [(l, 2), (Not(l), 3)]
            if st == 2:
                e = pysym.char_eq(c, E)
                return [(e, 0), (Not(e), 3)]
            return [(True, 3)]

        def ask(name, *conds):
            s.push()
            for c in conds:
                if c is False:
                    s.pop()
                    res['unsat'] += 1
                    res['queries'] += 1
                    return 'unsat'
                if c is not True:
                    s.add(c)
            q0 = time.time()
            r = str(s.check())
            res['solver_s'] += time.time() - q0
            res['queries'] += 1
            if n <= CROSS_NMAX:
                cross.decide(s, r, res, '%s esc=%r n=%d %s' % (family, esc, n, name))
            if r == 'sat':
                m = s.model()
                sval = value.concrete(m)
                dl = ''.join(chr(m.eval(dv, model_completion=True).as_long()) for dv in dvars)
                res['cex'].append({'ob': name, 's': sval, 'delims': dl})
            elif r == 'unsat':
                res['unsat'] += 1
            else:
                res['unknown'].append(name)
            s.pop()
            return r

        # O1
        ask('O1', out.present_any(is_delim))
        # O2 (modulo the recorded family)
        fin = out.run_automaton(4, 0, tok_delta)
        bad_tok = Not(fin[0])
        prot = info1.get('protected', False)
        if exclude_known:
            ask('O2', bad_tok, Not(prot))
        else:
            ask('O2', bad_tok)
        # does the recorded family still exist? (information; decided by a separate query)
        s.push()
        if bad_tok is not False and prot is not False:
            s.add(bad_tok if bad_tok is not True else z3.BoolVal(True), prot if prot is not True else z3.BoolVal(True))
            q0 = time.time()
            res['known_family_sat'] = str(s.check())
            res['solver_s'] += time.time() - q0
            res['queries'] += 1
        s.pop()
        # O3: second pass inserts nothing
        again = SymStr(out.slots, ['p1'] * len(out.slots))
        out2 = cls(again, validation_level=2).to_er7(ec)
        ask('O3', out2.inserted_any({'repl', 'sub'}))
        # O4: well-formed delimiter-free input is a fixpoint
        fin_in = value.run_automaton(4, 0, tok_delta)
        ask('O4', Not(value.present_any(is_delim)), fin_in[0], out.inserted_any({'repl', 'sub'}))
        res['slots'] = len(out.slots)
    except Unsupported as e:
        res['unsupported'] = str(e)
    except Exception as e:   # noqa
        import traceback
        res['error'] = '%s: %s' % (type(e).__name__, e)
        res['traceback'] = traceback.format_exc()[-1500:]
    res['wall_s'] = round(time.time() - t0, 2)
    return res


def _e2_escape(tier, seed, nproc):
    exclude = known_open('C06-dangling-escape')
    tasks = []
    reps, members = kernel_families()
    for family in reps:
        for esc in ESCAPES:
            for n in range(0, NMAX + 1):
                tasks.append((family, esc, n, exclude, 120000))
                if family_has_truncation(family) and n <= 8:
                    tasks.append((family, esc, n, exclude, 120000, True))     # the legal 4-character MSH-2 of v2.7+
    tasks.sort(key=lambda t: -t[2])
    with multiprocessing.get_context('fork').Pool(nproc) as pool:
        results = pool.map(_e2_task, tasks, chunksize=1)
    cex, inconclusive, queries, unsat, solver_s = [], [], 0, 0, 0.0
    fam_sat = 0
    from pysym import cross
    xs = cross.new_stats()
    for r in results:
        cross.merge(xs, r)
        queries += r['queries']
        unsat += r['unsat']
        solver_s += r['solver_s']
        if r.get('known_family_sat') == 'sat':
            fam_sat += 1
        key = '%s esc=%r n=%d' % (r['family'], r['esc'], r['n'])
        if 'unsupported' in r:
            inconclusive.append('%s: code not encodable: %s' % (key, r['unsupported']))
        if 'error' in r:
            return {'status': 'error', 'message': '%s: %s\n%s' % (key, r['error'], r.get('traceback', ''))}
        for u in r['unknown']:
            inconclusive.append('%s: %s undecided (solver timeout)' % (key, u))
        for c in r['cex']:
            cex.append({'call': '_replay(%r, %r, %r, %r, %r)' % (c['ob'], r['family'].split('/')[0], r['esc'], c['delims'], c['s']),
                        'message': '%s %s' % (key, c['ob'])})
    fams = members
    if xs['cross_disagree']:
        return {'status': 'error', 'message': 'z3 and cvc5 disagree: ' + '; '.join(xs['cross_disagree'][:5])}
    status = 'refuted' if cex else ('unknown' if inconclusive else 'confirmed')
    return {'status': status, 'queries': queries, 'solver_s': round(solver_s, 2), 'paths': len(tasks), 'confirmed_paths': len(tasks),
            'pieces_total': len(tasks), 'pieces_confirmed': len(tasks) - len({c['message'].rsplit(' ', 1)[0] for c in cex}) - len(inconclusive),
            'counterexamples': cex[:40], 'inconclusive': inconclusive[:40],
            'samples': [{'tasks': len(tasks), 'queries': queries, 'unsat': unsat, 'lengths': '0..%d' % NMAX, 'escape_chars': ESCAPES,
                         'delimiter_domain': ''.join(chr(p) for p in PUNCT), 'classes_sharing_each_kernel': fams,
                         'recorded_family_excluded': exclude, 'tasks_where_recorded_family_is_satisfiable': fam_sat,
                         'max_slots': max(r.get('slots', 0) for r in results),
                         'second_solver': ('%d queries (n<=%d) decided again with the same answer %r, %d not decided within %ds'
                                           % (xs['cross_agree'], CROSS_NMAX, xs.get('cross_by', {}), xs['cross_undecided'], cross.TLIMIT_S))
                         if cross.ENABLED else 'off (thorough tier only)'}]}


# ---- E1 cross-check on the unmodified class ------------------------------------------------------------------------------
# (a version with a fully symbolic str was built first: CrossHair's regex layer does not evaluate the look-behind/look-ahead
#  pattern faithfully - it reported counterexamples such as '\\' that do not reproduce - so the cross-check enumerates, through
#  a symbolic index, every string over an alphabet of the characters the kernel distinguishes)
XALPH = ['|', '^', '&', '~', '#', '\\', 'E', 'F', 'H', 'L', 'a', ' '] + (['S', '.'] if THOROUGH else [])
MAXS = 4
NX = sum(len(XALPH) ** k for k in range(MAXS + 1))
STD = {'FIELD': '|', 'COMPONENT': '^', 'SUBCOMPONENT': '&', 'REPETITION': '~', 'ESCAPE': '\\'}
STD27 = dict(STD, TRUNCATION='#')


def _xstr(r):
    k = 0
    while r >= len(XALPH) ** k:
        r -= len(XALPH) ** k
        k += 1
    out = []
    for _ in range(k):
        out.append(XALPH[r % len(XALPH)])
        r //= len(XALPH)
    return ''.join(out)


def _x_check(family, s):
    ec = STD if family == 'base' else STD27
    roles = ROLES4 + (['TRUNCATION'] if family == 'v27' else [])
    delims = ''.join(ec[r] for r in roles)
    if known_open('C06-dangling-escape') and protected_family(s, ec, LETTERS[family], roles):
        return eval_obligation('O1', family, '\\', delims, s) and eval_obligation('O3', family, '\\', delims, s)
    return all(eval_obligation(ob, family, '\\', delims, s) for ob in ('O1', 'O2', 'O3', 'O4'))


def _bs(p, n):
    lo, hi = 0, n - 1
    while lo < hi:
        mid = (lo + hi) // 2
        if p <= mid:
            hi = mid
        else:
            lo = mid + 1
    return lo


def _ob_x_base(r: int) -> bool:
    """
    pre: 0 <= r < NX
    pre: in_part(r)
    post: _
    """
    r = _bs(r, NX)
    with concrete():
        return _x_check('base', _xstr(r))


def _ob_x_v27(r: int) -> bool:
    """
    pre: 0 <= r < NX
    pre: in_part(r)
    post: _
    """
    r = _bs(r, NX)
    with concrete():
        return _x_check('v27', _xstr(r))


def _printable(s):
    return all(' ' <= ch <= '~' for ch in s)


def _counts(text):
    return tuple(text.count(c) for c in '|^&~')


NX3 = sum(len(XALPH) ** k for k in range(4))


def _ob_assign(r: int, where: int) -> bool:
    """
    pre: 0 <= r < NX3 and 0 <= where < 3
    pre: in_part(r)
    post: _
    """
    r, where = _bs(r, NX3), _bs(where, 3)
    with concrete():
        return _assign(_xstr(r), where)


def _assign(s, where):
    reset_defaults()
    seg = parse_segment('PID|||1^^^H&I||S^N~T|||M', version='2.5', validation_level=2)
    before = _counts(seg.to_er7())
    lib = hl7apy.load_library('2.5')
    if where == 0:
        seg.pid_3.cx_4.hd_2.value = lib.ST(s)           # replaces the subcomponent I
    elif where == 1:
        seg.pid_5.xpn_2.value = lib.ST(s)               # replaces the component N
    else:
        seg.pid_8.value = lib.IS(s)                     # replaces the field M
    if s.strip() == '':
        return True        # an empty value is trimmed together with its separators: not this obligation's subject
    return _counts(seg.to_er7()) == before

# ---- S.pairs: the result of escaping does not depend on what was escaped before in the same process ----------------------------
STATE_ITEMS = [(fam, esc, text) for fam in ('base', 'v27') for esc in ('\\', '@', '$')
               for text in ('a%sF%sb', 'a%sL%sb', 'a%sb#', '|x%s', 'plain')]
NSTATE = len(STATE_ITEMS)
_ALONE = {}


def _state_run(items):
    out = None
    for fam, esc, text in items:
        roles = ROLES4 + (['TRUNCATION'] if fam == 'v27' else [])
        ec = dict(zip(roles, '|^&~#'))
        ec['ESCAPE'] = esc
        out = family_class(fam)(text.replace('%s', esc), validation_level=2).to_er7(ec)
    return out


def state_pair(a, b, trace=None):
    if b not in _ALONE:
        _ALONE[b] = forked(lambda: _state_run([STATE_ITEMS[b]]))
    got = forked(lambda: _state_run([STATE_ITEMS[a], STATE_ITEMS[b]]))
    if trace is not None:
        trace.append('after %r, %r encodes as %r ; in a fresh process as %r' % (STATE_ITEMS[a], STATE_ITEMS[b], got, _ALONE[b]))
    return got == _ALONE[b]


def _ob_state(a: int, b: int) -> bool:
    """
    pre: 0 <= a < NSTATE and 0 <= b < NSTATE
    pre: in_part(a)
    post: _
    """
    a, b = _bs(a, NSTATE), _bs(b, NSTATE)
    with concrete():
        return state_pair(a, b)


def explain(call):
    m = re.match(r'(\w+)\((.*)\)$', call, re.S)
    a, kw = eval('(lambda *a, **k: (a, k))(%s)' % m.group(2))
    out = []
    if m.group(1) == '_replay':
        ob, family, esc, delims, s = a
        roles = ROLES4 + (['TRUNCATION'] if family_has_truncation(family) and len(delims) == 5 else [])
        ec = dict(zip(roles, delims))
        ec['ESCAPE'] = esc
        cls = family_class(family)
        o = cls(s, validation_level=2).to_er7(ec)
        out.append('%s: %s(%r).to_er7(%r) = %r ; escaped again = %r ; tokenises=%s' % (
            ob, cls.__module__ + '.ST', s, ec, o, cls(o, validation_level=2).to_er7(ec), tokenises(o, esc, family_letters(family))))
    elif m.group(1) == '_ob_state':
        v = dict(zip(['a', 'b'], a)); v.update(kw)
        state_pair(v['a'], v['b'], out)
    elif m.group(1) in ('_ob_x_base', '_ob_x_v27'):
        s = _xstr(a[0] if a else kw['r'])
        family = 'base' if m.group(1) == '_ob_x_base' else 'v27'
        ec = STD if family == 'base' else STD27
        cls = family_class(family)
        o = cls(s, validation_level=2).to_er7(ec)
        out.append('%s: ST(%r).to_er7() = %r ; again = %r ; tokenises=%s' % (family, s, o, cls(o, validation_level=2).to_er7(ec),
                                                                          tokenises(o, '\\', LETTERS[family])))
    return '\n'.join(out)


SPEC = {
    'property': 'C06',
    'files': ['hl7apy/base_datatypes.py', 'hl7apy/v2_7/base_datatypes.py', 'hl7apy/core.py'],
    'functions_encoded': ['hl7apy.base_datatypes.TextualDataType.to_er7/_escape_value/_get_translations/_get_escape_char_regex',
                          'hl7apy.v2_7.base_datatypes.TextualDataType.to_er7/_get_translations/_get_escape_char_regex',
                          'hl7apy.core.SubComponent._set_value/to_er7 (O6)'],
    'assumptions': ['E2: the classes are the real ones; only the module-level name `re` of the two base_datatypes modules is bound to '
                    'pysym.reshim (regexes of the family [lookbehind] literal [lookahead] are evaluated on guarded slots, the pattern is '
                    'the one the code builds, parsed by CPython\'s own regex parser); str.replace is executed by pysym.SymStr.replace',
                    'E2: delimiters symbolic over all %d ASCII punctuation marks, pairwise distinct and different from the escape '
                    'character; escape character concrete from %r; value characters 0x20..0x7E; highlights=None' % (len(PUNCT), ESCAPES),
                    'every model is replayed on the unmodified class with the real re module before it is reported'],
    'outside': ['values longer than %d; non-ASCII / control characters; highlights; multi-letter HL7 escapes' % NMAX],
    'stubs': ['re.sub / re.escape as seen by the two base_datatypes modules (pysym.reshim)'],
    'obligations': [
        {'name': 'E2.escape', 'engine': 'E2', 'worker': '_e2_escape', 'timeout': 7200,
         'bound': 'O1-O4 for every distinct escape kernel x version class (%d) x %d escape characters x every length 0..%d x all delimiter assignments (symbolic)' % (len(kernel_families()[0]), len(ESCAPES), NMAX)},
        {'name': 'X.base', 'fn': '_ob_x_base', 'parts': 16, 'cond_timeout': 2400, 'path_timeout': 60,
         'bound': 'unmodified v2.5 ST and the real re module, default delimiters: O1-O4 for every string of length <=%d over %r (%d strings)' % (MAXS, ''.join(XALPH), NX)},
        {'name': 'X.v27', 'fn': '_ob_x_v27', 'parts': 16, 'cond_timeout': 2400, 'path_timeout': 60,
         'bound': 'unmodified v2.7 ST and the real re module, default delimiters incl. truncation: the same %d strings' % NX},
        {'name': 'S.pairs', 'fn': '_ob_state', 'parts': 8, 'cond_timeout': 900, 'path_timeout': 60,
         'bound': 'every ordered pair of %d (kernel family, escape character, text) encodings, each pair in a fresh forked process: the second '
                  'result equals what the same call returns in a fresh process (no state carried between encodings)' % NSTATE},
        {'name': 'O6.assign', 'fn': '_ob_assign', 'parts': 8, 'cond_timeout': 1500, 'path_timeout': 60,
         'bound': 'ST/IS(s) assigned to a subcomponent / component / field of a populated PID, every s of length <=3 over the '
                  'cross-check alphabet (%d strings): separator counts of the segment unchanged' % NX3},
    ],
}
