"""C11 - reading never writes; the first write materialises exactly the path read (E1).

A navigation chain is described by small symbolic integers:
   target   0 Message ADT_A01 / 1 Segment / 2 Field          (v2.5, TOLERANT; STRICT as a second panel)
   path     one of PATHS (message -> [group ->] segment -> field -> component -> subcomponent)
   depth    how many steps of the path are taken
   spell    how each step is spelled: HL7 name / long name / upper case / positional path from the field
   term     what is done with the proxy reached: nothing, len, iteration, repr, [0], .value, to_er7 of root, validate
   rep      how often the whole read is repeated (1..3)
Everything is concretised per path (fork per value); the library then runs concretely.
"""
from vlib.chglue import PART_K, PART_N, TIER, THOROUGH, in_part, reset_defaults, concrete
from harness.c02 import bsearch
from harness import tables as T
from harness.corpus import _report
from hl7apy.core import Message, Segment, Field

V = '2.5'
LIB = T.LIBS[V]

# message-level step(s), then segment, field, component, subcomponent names
PATHS = [
    (['PID'], 'PID_5', 'XPN_1', 'FN_1'),
    (['PID'], 'PID_3', 'CX_4', 'HD_1'),
    (['ADT_A01_INSURANCE', 'IN1'], 'IN1_2', 'CE_1', None),
    (['EVN'], 'EVN_2', 'TS_1', None),
    (['NK1'], 'NK1_4', 'XAD_1', 'SAD_1'),
    (['ADT_A01_PROCEDURE', 'PR1'], 'PR1_3', 'CE_2', None),
    (['ZIN'], 'ZIN_5', None, None),            # open-ended segment: any field index exists
    (['OBX'], 'OBX_5', 'VARIES_2', None),      # a field of type varies: any component index exists
]
NPATH = len(PATHS)
NSPELL = 4
TERMS = ['proxy', 'len', 'iter', 'repr', 'index0', 'value', 'root.to_er7', 'root.validate', 'in', 'children']
NTERM = len(TERMS)


def longname(kind, name):
    tab = LIB.FIELDS if kind == 'field' else LIB.DATATYPES
    return tab[name][3] if name in tab else None


def steps_for(target, pi, depth):
    """list of (kind, HL7 name) steps from the target element"""
    grp, fld, cmp_, sub = PATHS[pi]
    full = [('seg', g) for g in grp] + [('field', fld)] + ([('comp', cmp_)] if cmp_ else []) + ([('sub', sub)] if sub else [])
    if target == 1:
        full = full[len(grp):]
    elif target == 2:
        full = full[len(grp) + 1:]
    return full[:depth]


def maxdepth(target, pi):
    return len(steps_for(target, pi, 99))


def spell(step, spell_kind, field_name, comp_no):
    kind, name = step
    if spell_kind == 1 and kind in ('field', 'comp', 'sub'):
        ln = longname('field' if kind == 'field' else 'comp', name)
        if ln and ln.lower() not in ('name', 'value', 'version', 'children', 'table', 'datatype', 'parent', 'reference'):
            return ln.lower()
    if spell_kind == 2:
        return name.upper()
    if spell_kind == 3 and kind == 'comp' and field_name:
        return '%s_%d' % (field_name.lower(), T.child_number(name))        # positional path from the field
    return name.lower()


def make_root(target, pi, level, prefill=True):
    grp, fld, cmp_, sub = PATHS[pi]
    if target == 0:
        m = Message('ADT_A01', version=V, validation_level=level)
        m.msh.msh_7 = '2020'
        m.msh.msh_9 = 'ADT^A01^ADT_A01'
        m.msh.msh_10 = '1'
        m.msh.msh_11 = 'P'
        m.pv1.pv1_2 = 'I'
        return m
    if target == 1:
        seg = Segment(grp[-1], version=V, validation_level=level)
        if grp[-1] == 'ZIN' and prefill:
            seg.zin_1 = 'a'
        return seg
    return Field(fld, version=V, validation_level=level)


def tree(el):
    if el.__class__.__name__ == 'SubComponent':
        return (el.__class__.__name__, el.name)
    return (el.__class__.__name__, el.name, tuple(tree(c) for c in el.children.list))


def snapshot(root):
    return (root.to_er7(), tree(root), _report(root), root.to_er7(trailing_children=True))


def navigate(root, steps, spell_kind):
    cur = root
    field_name = root.name if root.__class__.__name__ == 'Field' else None
    for st in steps:
        cur = getattr(cur, spell(st, spell_kind, field_name, None))
        if st[0] == 'field':
            field_name = st[1]
    return cur


def do_term(root, proxy, term):
    t = TERMS[term]
    if t == 'len':
        len(proxy)
    elif t == 'iter':
        for x in proxy:
            repr(x)
    elif t == 'repr':
        repr(proxy)
        repr(root)
        repr(root.children)
    elif t == 'index0':
        try:
            proxy[0]
        except IndexError:
            pass
    elif t == 'value':
        try:
            proxy.value
        except AttributeError:
            pass
        proxy.to_er7() if hasattr(proxy, 'to_er7') else None
    elif t == 'root.to_er7':
        root.to_er7()
        root.to_er7(trailing_children=True)
    elif t == 'root.validate':
        root.validate(return_errors=True)
    elif t == 'in':
        proxy in root.children
        list(root.children)
    elif t == 'children':
        for c in root.children:
            c.children


def read_only(target, pi, depth, spell_kind, term, rep, level, trace=None):
    reset_defaults()
    root = make_root(target, pi, level)
    steps = steps_for(target, pi, depth)
    before = snapshot(root)
    for _ in range(rep):
        proxy = navigate(root, steps, spell_kind)
        do_term(root, proxy, term)
    after = snapshot(root)
    if trace is not None:
        trace.append('read chain %s (spelling %d), then %s, x%d\n  before %r\n  after  %r' % (
            '.'.join(spell(s, spell_kind, None, None) for s in steps), spell_kind, TERMS[term], rep, before[:2], after[:2]))
    return before == after


def tok(pi):
    return '2020' if PATHS[pi][1] == 'EVN_2' else 'X'


def expected_after_write(target, pi, depth):
    """expected (encoding of the innermost segment/field, chain of (class, name)) after writing X at depth"""
    grp, fld, cmp_, sub = PATHS[pi]
    steps = steps_for(target, pi, depth)
    kinds = [s[0] for s in steps]
    fno = T.child_number(fld)
    cno = T.child_number(cmp_) if cmp_ else None
    sno = T.child_number(sub) if sub else None
    # text of the field
    if 'sub' in kinds:
        ftext = '^' * (cno - 1) + '&' * (sno - 1) + tok(pi)
    elif 'comp' in kinds:
        ftext = '^' * (cno - 1) + tok(pi)
    else:
        ftext = tok(pi)
    if target == 2:
        return ftext
    if 'field' not in kinds:
        return None    # writes at segment level are C09's subject
    return grp[-1] + '|' * fno + ftext


def write_once(target, pi, depth, spell_kind, level, trace=None, wmode=0):
    reset_defaults()
    root = make_root(target, pi, level, prefill=False)
    steps = steps_for(target, pi, depth)
    want = expected_after_write(target, pi, depth)
    if want is None:
        return True
    before_tree = tree(root)
    # read the chain a few times first - also BELOW the position that will be written - (must not matter), then write
    navigate(root, steps, spell_kind)
    navigate(root, steps, spell_kind)
    deep = navigate(root, steps_for(target, pi, 99), spell_kind)
    try:
        deep.value
        len(deep)
    except AttributeError:
        pass
    holder = navigate(root, steps[:-1], spell_kind) if len(steps) > 1 else root
    field_name = root.name if target == 2 else ([s[1] for s in steps if s[0] == 'field'] or [None])[0]
    def _write(h):
        nm = spell(steps[-1], spell_kind, field_name, None)
        if wmode == 0:
            setattr(h, nm, tok(pi))                    # h.child = value
        elif wmode == 1:
            getattr(h, nm)[0] = tok(pi)                # h.child[0] = value
        else:
            getattr(h, nm).value = tok(pi)             # h.child.value = value
    _write(holder)
    # the innermost segment (or the field itself) must encode X at the defined position and nowhere else
    if target == 2:
        got = root.to_er7()
    elif target == 1:
        got = root.to_er7()
    else:
        seg = root
        for g in PATHS[pi][0]:
            seg = getattr(seg, g.lower())[0]
        got = seg.to_er7()
    t1 = tree(root)
    ok = got == want and _single_chain(root, target, pi, steps)
    # writing the same thing again adds nothing
    holder2 = navigate(root, steps[:-1], spell_kind) if len(steps) > 1 else root
    _write(holder2)
    t2 = tree(root)
    if trace is not None:
        trace.append('write X at the end of %s (spelling %d)\n  innermost element encodes %r (expected %r)\n  tree before %r\n  tree after  %r\n  tree after 2nd identical write %r' % (
            '.'.join(spell(s, spell_kind, field_name if s[0] == 'comp' else None, None) for s in steps), spell_kind, got, want, before_tree, t1, t2))
    return ok and t1 == t2


def _single_chain(root, target, pi, steps):
    """exactly one new element per chain level, nothing else"""
    cur = root
    base = {0: ('MSH', 'PV1'), 1: (), 2: ()}[target]
    for st in steps:
        kids = [c for c in cur.children.list if c.name not in base]
        base = ()
        if len(kids) != 1:
            return False
        if st[0] == 'sub':
            if kids[0].name != st[1]:
                return False
            return True
        if kids[0].name != st[1]:
            return False
        cur = kids[0]
    # below the written element only the leaf chain that carries X (first component / subcomponent) may exist
    while cur.__class__.__name__ != 'SubComponent':
        kids = cur.children.list
        if len(kids) != 1:
            return False
        cur = kids[0]
    return True


NCHAIN = 3 * NPATH * 5 * NSPELL     # target x path x depth(1..5) x spelling


def _decode(r):
    spell_kind = r % NSPELL
    r //= NSPELL
    depth = r % 5 + 1
    r //= 5
    pi = r % NPATH
    target = r // NPATH
    return target, pi, depth, spell_kind


def _ob_read(r: int, term: int, rep: int, strict: bool) -> bool:
    """
    pre: 0 <= r < NCHAIN and 0 <= term < NTERM and 1 <= rep <= 3
    pre: in_part(r)
    post: _
    """
    r, term, rep = bsearch(r, NCHAIN), bsearch(term, NTERM), bsearch(rep - 1, 3) + 1
    level = 1 if strict else 2
    with concrete():
        target, pi, depth, spell_kind = _decode(r)
        if depth > maxdepth(target, pi):
            return True
        return read_only(target, pi, depth, spell_kind, term, rep, level)


def _ob_write(r: int, strict: bool, wmode: int) -> bool:
    """
    pre: 0 <= r < NCHAIN and 0 <= wmode < 3
    pre: in_part(r)
    post: _
    """
    r, wmode = bsearch(r, NCHAIN), bsearch(wmode, 3)
    level = 1 if strict else 2
    with concrete():
        target, pi, depth, spell_kind = _decode(r)
        if depth > maxdepth(target, pi):
            return True
        return write_once(target, pi, depth, spell_kind, level, None, wmode)


def explain(call):
    import re
    m = re.match(r'(\w+)\((.*)\)$', call, re.S)
    a, kw = eval('(lambda *a, **k: (a, k))(%s)' % m.group(2))
    tr = []
    if m.group(1) == '_ob_read':
        v = dict(zip(['r', 'term', 'rep', 'strict'], a)); v.update(kw)
        target, pi, depth, sk = _decode(v['r'])
        tr.append('target %d path %r depth %d level %s' % (target, PATHS[pi], depth, 'STRICT' if v['strict'] else 'TOLERANT'))
        try:
            read_only(target, pi, depth, sk, v['term'], v['rep'], 1 if v['strict'] else 2, tr)
        except Exception as e:
            tr.append('raised %s: %s' % (type(e).__name__, e))
    else:
        v = dict(zip(['r', 'strict', 'wmode'], a)); v.update(kw)
        target, pi, depth, sk = _decode(v['r'])
        tr.append('target %d path %r depth %d level %s write form %s' % (target, PATHS[pi], depth, 'STRICT' if v['strict'] else 'TOLERANT',
                                                                       ['h.child = v', 'h.child[0] = v', 'h.child.value = v'][v.get('wmode', 0)]))
        try:
            write_once(target, pi, depth, sk, 1 if v['strict'] else 2, tr, v.get('wmode', 0))
        except Exception as e:
            tr.append('raised %s: %s' % (type(e).__name__, e))
    return '\n'.join(tr)


SPEC = {
    'property': 'C11',
    'files': ['hl7apy/core.py', 'hl7apy/validation.py'],
    'functions_encoded': ['hl7apy.core.ElementProxy.__getattr__/__setattr__/__len__/__iter__/__getitem__/__repr__',
                          'hl7apy.core.ElementList.get/_default_child_lookup/create_element/append/set/child_at_index/replace_child',
                          'hl7apy.core.Element.__getattr__/__setattr__/set_parent_to_traversal/_set_traversal_parent/to_er7/validate',
                          'hl7apy.core.Field._do_traversal/_get_traversal_children', 'hl7apy.core.SubComponent._set_value'],
    'assumptions': ['HL7 v2.5; both validation levels; the %d navigation paths of PATHS' % NPATH,
                    'chain descriptors are symbolic and exhausted by CrossHair/z3; each chain then runs concretely'],
    'outside': ['paths through other segments/datatypes; chains interleaved with unrelated writes (C09/C10 cover writes)'],
    'stubs': [],
    'obligations': [
        {'name': 'read', 'fn': '_ob_read', 'parts': 32, 'cond_timeout': 900, 'path_timeout': 60,
         'bound': '%d chains (3 targets x %d paths x depth 1..5 x %d spellings) x %d terminal observations x 1..3 repetitions x 2 levels: '
                  'encoding, children tree and validation report unchanged' % (NCHAIN, NPATH, NSPELL, NTERM)},
        {'name': 'write', 'fn': '_ob_write', 'parts': 16, 'cond_timeout': 900, 'path_timeout': 60,
         'bound': '%d chains x 2 levels x 3 forms of the final write (h.child = v, h.child[0] = v, h.child.value = v): a write at the '
                  'end creates one element per level at its defined position; a second identical write adds nothing' % NCHAIN},
    ],
}
