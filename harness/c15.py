"""C15 - bad input fails with the library's exceptions, never with a crash (E1 / CrossHair on the real parser).

Obligations (each is a function whose postcondition CrossHair tries to refute over ALL values allowed by `pre`):

  H.type / H.info   get_message_type / get_message_info("MSH"+t), t a fully symbolic string, len(t) <= 7 (9 thorough)
  H.parse           parse_message("MSH"+t, level) for fully symbolic t, len(t) <= 4 (5 thorough), both levels,
                    followed by to_er7() and validate(return_errors=True) when it parsed
  P.mut             parse_message(mutate(valid message, kind, p), level) for a symbolic mutation kind and position
                    over concrete valid messages; whatever parsed must encode and validate without raising
  P.name            a segment name / MSH-9 / MSH-12 replaced by a fully symbolic short string
"""
from vlib.chglue import PART_K, PART_N, TIER, THOROUGH, KNOWN_OFF, in_part, reset_defaults, concrete
from hl7apy.parser import get_message_type, get_message_info, parse_message
from hl7apy.exceptions import HL7apyException

MAXLEN = 8 if THOROUGH else 7
MAXLEN_PARSE = 4
ALPHA = ['|', '^', '~', '&', ' ', '\r', 'A']     # 4 distinct punctuation marks, blank, CR, a letter
NALPHA = len(ALPHA)
ALEN = 6 if THOROUGH else 5
NASTR = NALPHA ** ALEN

MSGS = [
    'MSH|^~\\&|A|B|C|D|2008||VXU^V04^VXU_V04|1|P|2.8.2\rPID|1||1\rORC|RE\rRXA|0|1|2008|2008|x^y|1|||||abc',     # RXA-11: datatype LA2, not defined in 2.8.2
    'MSH|^~\\&|A|B|||2020||ADT^A01|1|P|2.5\rPID|1||X^^^H&I||S^N~T\rZZZ|1',
    'MSH|^~\\&#|A|B|||2020||ADT^A01^ADT_A01|1|P|2.7\rEVN||2020\rPID|1||X^^^H&I||S',
    'MSH|^~\\&|A|B|||2020||ORU^R01|1|P|2.3\rPID|||1\rOBX|1|NM|A||1.5',
]
NMSG = len(MSGS)
KINDS = 4   # truncate, delete, duplicate, insert CR

# garbled names put in place of a segment name, MSH-9, MSH-12 (finite catalogue; the index is symbolic)
NAMES = ['', ' ', 'P', 'PI', 'pid', 'PIDX', 'P|D', 'P^D', 'ZZ', 'Z_1', 'zz9', '123', '\xe9\xe9\xe9', '\x00\x00\x00', 'MSH',
         'ADT', 'ADT^', 'ADT^A01^', '^^ADT_A01', 'ADT_A01', 'ZZZ^Z01', 'zaa^z01^zaa_z01', '2.', '2.55', '2.7', '2.5^X',
         '\\', '~', '&', 'EVN\r']


def _pieces():
    """(len, sub) pairs: sub = 0 when the first character of t does not occur again, else its next position"""
    out = []
    for ln in range(MAXLEN + 1):
        for sub in range(max(ln, 1)):
            out.append((ln, sub))
    return out


PIECES = _pieces()
MY_LEN, MY_SUB = PIECES[PART_K] if PART_N == len(PIECES) else (-1, -1)


def _sub(t):
    if len(t) < 2:
        return 0
    i = t.find(t[0], 1)
    return i if i > 0 else 0


def _mine(t):
    """partition predicate for the header obligations (structural: length and position of the 2nd field separator)"""
    if MY_LEN < 0:
        return True
    return len(t) == MY_LEN and _sub(t) == MY_SUB


def _classify(thunk, strict):
    """'ok' | 'lib' (an exception C15 allows).  Any other exception PROPAGATES: CrossHair then reports it as the
    counterexample (and can tell its own proxy-intolerance artefacts from real exceptions); the replay script
    treats an escaping exception as the violation."""
    try:
        thunk()
    except HL7apyException:
        return 'lib'
    except ValueError:
        if strict:
            return 'lib'
        raise
    return 'ok'


def _total(thunk, strict=False):
    _classify(thunk, strict)
    return True


def _parse_all(text, level):
    """parse, and if that worked, encode and validate (neither may raise anything)"""
    box = []
    r = _classify(lambda: box.append(parse_message(text, validation_level=level)), level == 1)
    if r != 'ok':
        return r
    m = box[0]
    m.to_er7()
    rep = m.validate(return_errors=True)
    if rep.is_valid != (not rep.errors):
        return 'crash-report-inconsistent'
    return 'ok'


def _concretize(p, n):
    """Fork CrossHair once per value so that everything downstream is concrete for the path."""
    for q in range(n):
        if p == q:
            return q
    return n


def _mutate(text, kind, p):
    if kind == 0:
        return text[:p]
    if kind == 1:
        return text[:p] + text[p + 1:]
    if kind == 2:
        return text[:p] + text[p] + text[p:]
    return text[:p] + '\r' + text[p:]


# ------------------------------------------------------------------------------------------------ obligations
def _ob_hdr_type(t: str) -> bool:
    """
    pre: len(t) <= MAXLEN
    pre: _mine(t)
    post: _
    """
    return _total(lambda: get_message_type("MSH" + t))


def _ob_hdr_info(t: str) -> bool:
    """
    pre: len(t) <= MAXLEN
    pre: _mine(t)
    post: _
    """
    return _total(lambda: get_message_info("MSH" + t))


def _ob_hdr_parse(t: str, strict: bool) -> bool:
    """
    pre: len(t) <= MAXLEN_PARSE
    pre: in_part(len(t) * 2 + (1 if strict else 0))
    post: _
    """
    reset_defaults()
    return not _parse_all("MSH" + t, 1 if strict else 2).startswith('crash')


def _ob_hdr_alpha(r: int, strict: bool) -> bool:
    """
    pre: 0 <= r < NASTR
    pre: in_part(r)
    post: _
    """
    reset_defaults()
    lo, hi = 0, NASTR - 1
    while lo < hi:          # fork down to one concrete string index
        mid = (lo + hi) // 2
        if r <= mid:
            hi = mid
        else:
            lo = mid + 1
    level = 1 if strict else 2
    with concrete():
        t = ''
        q = lo
        for _ in range(ALEN):
            t += ALPHA[q % NALPHA]
            q //= NALPHA
        return not _parse_all("MSH" + t, level).startswith('crash')


def _ob_mut(mi: int, kind: int, p: int, strict: bool) -> bool:
    """
    pre: 0 <= mi < NMSG and 0 <= kind < KINDS
    pre: 0 <= p < len(MSGS[mi])
    pre: in_part(p)
    post: _
    """
    reset_defaults()
    mi = _concretize(mi, NMSG)
    kind = _concretize(kind, KINDS)
    p = _concretize(p, len(MSGS[mi]))
    level = 1 if strict else 2
    with concrete():   # the path has fixed message, mutation kind, position and level: run the parser untraced
        return not _parse_all(_mutate(MSGS[mi], kind, p), level).startswith('crash')


# ---- P.rows: a value at EVERY field position of every segment of every version (table-driven crashes) ---------------------------
from harness import tables as _T      # noqa: E402
from harness.c02 import bsearch as _bs   # noqa: E402
FIELD_ROWS = [r for r in _T.field_rows() if _T.SEGS[_T.VERSIONS[r[0]]][r[1]] != 'MSH']
NROWS = len(FIELD_ROWS)
ROW_VALUES = ['1^2&3~4^5'] + (['abc'] if THOROUGH else [])
NRV = len(ROW_VALUES)


def row_text(r, vi_):
    vi, si, k = FIELD_ROWS[r]
    v = _T.VERSIONS[vi]
    seg = _T.SEGS[v][si]
    n = _T.child_number(_T.seg_children(v, seg)[k][0])
    return 'MSH|^~\\&|A|B|C|D|2020||ADT^A01^ADT_A01|1|P|%s\r%s%s%s' % (v, seg, '|' * n, ROW_VALUES[vi_])


def _ob_rows(r: int, vi_: int, strict: bool) -> bool:
    """
    pre: 0 <= r < NROWS and 0 <= vi_ < NRV
    pre: in_part(r)
    post: _
    """
    r, vi_ = _bs(r, NROWS), _bs(vi_, NRV)
    level = 1 if strict else 2
    with concrete():
        reset_defaults()
        return not _parse_all(row_text(r, vi_), level).startswith('crash')


def _ob_name(which: int, ni: int, strict: bool) -> bool:
    """
    pre: 0 <= which < 3 and 0 <= ni < len(NAMES)
    pre: in_part(ni)
    post: _
    """
    reset_defaults()
    which = _concretize(which, 3)
    s = NAMES[_concretize(ni, len(NAMES))]
    if which == 0:    # segment name of the 2nd line
        text = 'MSH|^~\\&|A|B|||2020||ADT^A01^ADT_A01|1|P|2.5\r' + s + '|1|2\rPID|1'
    elif which == 1:  # MSH-9
        text = 'MSH|^~\\&|A|B|||2020||' + s + '|1|P|2.5\rPID|1'
    else:             # MSH-12
        text = 'MSH|^~\\&|A|B|||2020||ADT^A01^ADT_A01|1|P|' + s + '\rPID|1'
    level = 1 if strict else 2
    with concrete():
        return not _parse_all(text, level).startswith('crash')


SPEC = {
    'property': 'C15',
    'files': ['hl7apy/parser.py', 'hl7apy/core.py', 'hl7apy/validation.py', 'hl7apy/exceptions.py'],
    'functions_encoded': ['hl7apy.parser._split_msh', 'hl7apy.parser.get_message_type', 'hl7apy.parser.get_message_info',
                          'hl7apy.parser.parse_message (and everything it calls: parse_segments/segment/fields/field/'
                          'components/subcomponents, core.Message/Group/Segment/Field/Component/SubComponent, '
                          'factories.datatype_factory)', 'hl7apy.core.Element.to_er7', 'hl7apy.core.Element.validate',
                          'hl7apy.validation.Validator.validate'],
    'assumptions': ['CrossHair 0.0.110 models CPython str/re/dict semantics faithfully (every counterexample is replayed '
                    'on the plain interpreter before it is reported)',
                    'C15 allows: a result, any HL7apyException subclass, and ValueError under STRICT; every other '
                    'Exception is a violation'],
    'outside': ['header strings longer than the bound; mutations of messages other than the %d listed; mutations that '
                'change more than one position' % len(MSGS)],
    'stubs': [],
    'obligations': [
        {'name': 'H.type', 'fn': '_ob_hdr_type', 'parts': len(PIECES), 'cond_timeout': {'quick': 150, 'thorough': 900},
         'path_timeout': 30, 'bound': 'get_message_type("MSH"+t): every str t with len(t)<=%d' % MAXLEN},
        {'name': 'H.info', 'fn': '_ob_hdr_info', 'parts': len(PIECES), 'cond_timeout': {'quick': 150, 'thorough': 900},
         'path_timeout': 30, 'bound': 'get_message_info("MSH"+t): every str t with len(t)<=%d' % MAXLEN},
        {'name': 'H.parse', 'fn': '_ob_hdr_parse', 'parts': 2 * (MAXLEN_PARSE + 1),
         'cond_timeout': {'quick': 150, 'thorough': 900}, 'path_timeout': 40,
         'bound': 'parse_message("MSH"+t, level)+to_er7+validate: every str t with len(t)<=%d, both levels' % MAXLEN_PARSE},
        {'name': 'H.parse.alpha', 'fn': '_ob_hdr_alpha', 'parts': 32, 'cond_timeout': {'quick': 600, 'thorough': 3000}, 'path_timeout': 40,
         'bound': 'parse_message("MSH"+t, level)+to_er7+validate: every t of length %d over the alphabet %r (4 distinct '
                  'punctuation marks, blank, CR, letter), both levels' % (ALEN, ''.join(ALPHA))},
        {'name': 'P.mut', 'fn': '_ob_mut', 'parts': 16, 'cond_timeout': {'quick': 200, 'thorough': 900}, 'path_timeout': 40,
         'bound': '%d concrete messages x %d mutation kinds of {truncate,delete,duplicate,insert CR} x every position x both levels' % (NMSG, KINDS)},
        {'name': 'P.name', 'fn': '_ob_name', 'parts': 16, 'cond_timeout': {'quick': 150, 'thorough': 900}, 'path_timeout': 40,
         'bound': 'segment name / MSH-9 / MSH-12 replaced by each of %d catalogue strings (symbolic index), both levels' % len(NAMES)},
        {'name': 'P.rows', 'fn': '_ob_rows', 'parts': 32, 'cond_timeout': {'quick': 900, 'thorough': 3000}, 'path_timeout': 40,
         'bound': 'a message with a value (%r) at EVERY field position of every non-MSH segment of every version (%d rows), both levels: '
                  'parse, encode and validate raise nothing but the allowed exceptions' % (ROW_VALUES, NROWS)},
    ],
}
