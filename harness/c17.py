"""C17 - explicit arguments override process-wide defaults (E1: symbolic defaults x symbolic call index)."""
from vlib.chglue import PART_K, PART_N, TIER, THOROUGH, KNOWN_OFF, in_part, reset_defaults, concrete, known_open
from harness.c02 import bsearch
from harness import corpus as K
import hl7apy
from hl7apy.core import Message, Segment, Field
from hl7apy.parser import parse_message, parse_segment

VERSIONS = sorted(hl7apy.SUPPORTED_LIBRARIES, key=lambda v: tuple(int(x) for x in v.split('.')))
NV = len(VERSIONS)
DELIMS = [None,
          {'FIELD': '!', 'COMPONENT': '*', 'SUBCOMPONENT': '$', 'REPETITION': '@', 'ESCAPE': '?'},
          {'FIELD': '#', 'COMPONENT': '+', 'SUBCOMPONENT': '=', 'REPETITION': ';', 'ESCAPE': '/'},
          # the standard characters in permuted roles (a default that collides with what the calls pass explicitly)
          {'FIELD': '^', 'COMPONENT': '|', 'SUBCOMPONENT': '~', 'REPETITION': '&', 'ESCAPE': '\\'},
          # a default set that carries a truncation character
          {'FIELD': '|', 'COMPONENT': '^', 'SUBCOMPONENT': '&', 'REPETITION': '~', 'ESCAPE': '\\', 'TRUNCATION': '%'}]
ND = len(DELIMS)
NC = K.NCALLS


def set_defaults(dv, dl, de):
    hl7apy.set_default_version(VERSIONS[dv])
    hl7apy.set_default_validation_level(1 if dl == 0 else 2)
    if DELIMS[de] is not None:
        hl7apy.set_default_encoding_chars(dict(DELIMS[de]))


def explicit(dv, dl, de, ci, trace=None):
    reset_defaults()
    base = K.sig(K.CALLS[ci])
    try:
        set_defaults(dv, dl, de)
        got = K.sig(K.CALLS[ci])
    finally:
        reset_defaults()
    if trace is not None:
        trace.append('call %s\n  pristine defaults : %r\n  defaults (version %s, level %s, delimiters %r):\n                      %r' % (
            K.CALLS[ci].__name__, base, VERSIONS[dv], 'STRICT' if dl == 0 else 'TOLERANT', DELIMS[de], got))
    return base == got


# ---- elements that already exist when the defaults change ---------------------------------------------------------
def _b_parsed():
    m = parse_message(K.M25, validation_level=2)
    return m, lambda: K._msg_sig(m) + (m.pid.pid_3.to_er7(), m.pid.pid_3.pid_3_4.encoding_chars['SUBCOMPONENT'])


def _b_built_ec():
    m = Message('ADT_A01', version='2.6', validation_level=1, encoding_chars=dict(K.EC))
    m.msh.msh_7 = '20200101'
    m.pid = 'PID!1!!X***H$I!!S*N'
    return m, lambda: K._msg_sig(m) + (m.pid.to_er7(), m.pid.pid_5.version, m.pid.pid_5.validation_level)


def _b_built_default():
    m = Message('ADT_A01')          # built entirely from the defaults in force at creation time
    m.msh.msh_7 = '20200101'
    m.pid.pid_5 = 'A^B'
    return m, lambda: K._msg_sig(m) + (m.pid.pid_5.to_er7(),)


def _b_segment_explicit_enc():
    s = parse_segment('PID|||1||A^B&C~D', version='2.3', validation_level=2, encoding_chars=dict(K.STD))
    return s, lambda: (s.to_er7(dict(K.STD)), s.version, s.validation_level, K._report(s)[:3], s.pid_5.version)


def _b_segment_standalone():
    s = Segment('PID')
    s.pid_5 = 'A^B'
    return s, lambda: (s.to_er7(), s.version, s.validation_level)


BUILDERS = [_b_parsed, _b_built_ec, _b_built_default, _b_segment_explicit_enc, _b_segment_standalone]
NB = len(BUILDERS)
STANDALONE = BUILDERS.index(_b_segment_standalone)


def existing(dv, dl, de, bi, trace=None):
    reset_defaults()
    el, observe = BUILDERS[bi]()
    before = K.sig(observe)
    try:
        set_defaults(dv, dl, de)
        after = K.sig(observe)
    finally:
        reset_defaults()
    if trace is not None:
        trace.append('element %s\n  before: %r\n  after defaults := (version %s, level %s, delimiters %r):\n          %r' % (
            BUILDERS[bi].__name__, before, VERSIONS[dv], 'STRICT' if dl == 0 else 'TOLERANT', DELIMS[de], after))
    return before == after


def _ob_explicit(dv: int, dl: int, de: int, ci: int) -> bool:
    """
    pre: 0 <= dv < NV and 0 <= dl < 2 and 0 <= de < ND and 0 <= ci < NC
    pre: in_part(ci)
    post: _
    """
    dv, dl, de, ci = bsearch(dv, NV), bsearch(dl, 2), bsearch(de, ND), bsearch(ci, NC)
    with concrete():
        return explicit(dv, dl, de, ci)


def _ob_existing(dv: int, dl: int, de: int, bi: int) -> bool:
    """
    pre: 0 <= dv < NV and 0 <= dl < 2 and 0 <= de < ND and 0 <= bi < NB
    pre: in_part(dv)
    post: _
    """
    dv, dl, de, bi = bsearch(dv, NV), bsearch(dl, 2), bsearch(de, ND), bsearch(bi, NB)
    with concrete():
        if bi == STANDALONE and de != 0 and known_open('C17-standalone-delims'):
            return True   # recorded finding: a parentless element encodes with the CURRENT default delimiters
        return existing(dv, dl, de, bi)


def explain(call):
    import re
    m = re.match(r'(\w+)\((.*)\)$', call, re.S)
    a, kw = eval('(lambda *a, **k: (a, k))(%s)' % m.group(2))
    tr = []
    if m.group(1) == '_ob_explicit':
        v = dict(zip(['dv', 'dl', 'de', 'ci'], a)); v.update(kw)
        explicit(v['dv'], v['dl'], v['de'], v['ci'], tr)
    else:
        v = dict(zip(['dv', 'dl', 'de', 'bi'], a)); v.update(kw)
        existing(v['dv'], v['dl'], v['de'], v['bi'], tr)
    return '\n'.join(tr)


SPEC = {
    'property': 'C17',
    'files': ['hl7apy/__init__.py', 'hl7apy/core.py', 'hl7apy/parser.py', 'hl7apy/factories.py', 'hl7apy/base_datatypes.py',
              'hl7apy/v2_7/base_datatypes.py'],
    'functions_encoded': ['hl7apy.set_default_version/set_default_validation_level/set_default_encoding_chars/get_default_*',
                          'every function reached by the %d corpus calls of harness/corpus.py (parse_*, Message/Segment/Field/Component/'
                          'SubComponent constructors, datatype_factory and the factories, to_er7, validate, is_base_datatype, '
                          'Component.add_subcomponent)' % NC],
    'assumptions': ['default version / level / delimiter-set indices and the call index are symbolic and exhausted by CrossHair/z3; '
                    'each combination then runs concretely',
                    'delimiter sets considered as defaults: library default and two custom 5-character sets'],
    'outside': ['calls not in the corpus; default delimiter sets other than the three listed'],
    'stubs': [],
    'obligations': [
        {'name': 'explicit', 'fn': '_ob_explicit', 'parts': 24, 'cond_timeout': 900, 'path_timeout': 60,
         'bound': '%d default versions x 2 default levels x %d default delimiter sets x %d calls with explicit arguments' % (NV, ND, NC)},
        {'name': 'existing', 'fn': '_ob_existing', 'parts': 12, 'cond_timeout': 900, 'path_timeout': 60,
         'bound': '%d x 2 x %d default changes x %d already-built elements' % (NV, ND, NB)},
    ],
}
