"""C16 - MLLP: one framed request in, exactly one correctly routed reply out (E1 on the real request handler).

The real hl7apy.mllp.MLLPRequestHandler (setup / handle / _extract_hl7_message / _route_message, and through it
parser.get_message_type) is run on a stub connection.  Stubs (the whole environment model):
   recv(n)            returns a prefix of the pending bytes of length min(n, first, available)  [first is symbolic: the
                      documented contract of recv is "up to n bytes"]
   makefile().read(1) returns the next pending byte, b'' at end of input, or raises socket.timeout at a symbolic step
   sendall/close/settimeout   record
Concurrency (N simultaneous clients, ThreadingTCPServer) is OUTSIDE this check - see DESIGN.md.
"""
import socket

from vlib.chglue import PART_K, PART_N, TIER, THOROUGH, in_part, reset_defaults, concrete
from harness.c02 import bsearch
from hl7apy.mllp import MLLPRequestHandler, UnsupportedMessageType, InvalidHL7Message
from hl7apy.core import Message
from hl7apy.parser import parse_message

SB, EB, CR = b'\x0b', b'\x1c', b'\x0d'
MAXBODY = 5 if THOROUGH else 3
MAXRAW = 6 if THOROUGH else 5
ALPH = [SB, EB, CR, b'M', b'|', b'\xc3']
NA = len(ALPH)


class _File(object):
    def __init__(self, conn):
        self.conn = conn
        self.closed = False

    def read(self, n=1):
        c = self.conn
        c.steps += 1
        if c.timeout_at >= 0 and c.steps > c.timeout_at:
            raise socket.timeout('timed out')
        out = c.data[c.pos:c.pos + n]
        c.pos += len(out)
        return out

    def write(self, b):
        self.conn.sendall(b)

    def flush(self):
        pass

    def close(self):
        self.closed = True


class Conn(object):
    def __init__(self, data, first=3, timeout_at=-1):
        self.data = data
        self.pos = 0
        self.first = first
        self.timeout_at = timeout_at   # number of read steps after which reads time out (-1: never)
        self.steps = 0
        self.sent = b''
        self.closed = 0

    def settimeout(self, t):
        pass

    def setsockopt(self, *a):
        pass

    def recv(self, n):
        self.steps += 1
        if self.timeout_at >= 0 and self.steps > self.timeout_at:
            raise socket.timeout('timed out')
        k = min(n, self.first, len(self.data) - self.pos)
        out = self.data[self.pos:self.pos + k]
        self.pos += k
        return out

    def makefile(self, mode='rb', bufsize=-1):
        return _File(self)

    def sendall(self, b):
        self.sent += b

    def send(self, b):
        # socket.send may transmit fewer bytes than it is given and says how many: this peer takes two at a time
        k = min(len(b), 2)
        self.sent += b[:k]
        return k

    def close(self):
        self.closed += 1


class _Server(object):
    def __init__(self, handlers, timeout=10):
        self.handlers = handlers
        self.timeout = timeout


LOG = []


def _mk(name):
    class _H(object):
        def __init__(self, msg, *args):
            LOG.append(('ctor', name, msg, args))

        def reply(self):
            LOG.append(('reply', name))
            return 'ACK-' + name
    _H.__name__ = 'H_' + name
    return _H


class _Err(object):
    def __init__(self, exc, msg, *args):
        LOG.append(('ctor', 'ERR', msg, type(exc).__name__))

    def reply(self):
        LOG.append(('reply', 'ERR'))
        return 'NAK'


H_A01 = _mk('A01')
H_Q22 = _mk('Q22')


def serve(data, first=3, timeout_at=-1, with_err=True):
    """run the real request handler once; returns (conn, log, exception or None, handlers dict before/after equal)"""
    del LOG[:]
    handlers = {'ADT^A01': (H_A01,), 'QBP^Q22^QBP_Q21': (H_Q22, 'extra')}
    if with_err:
        handlers['ERR'] = (_Err,)
    snapshot = dict(handlers)
    conn = Conn(data, first, timeout_at)
    exc = None
    try:
        MLLPRequestHandler(conn, ('127.0.0.1', 1), _Server(handlers))
    except Exception as e:   # what socketserver would see (it then closes the connection)
        exc = e
    return conn, list(LOG), exc, handlers == snapshot


HDR = b'MSH|^~\\&|A|B|C|D|2020||ADT^A01|'


# ---- F: framing on the sending side ---------------------------------------------------------------------------
def _ob_frame(shape: int, trailing: bool) -> bool:
    """
    pre: 0 <= shape < 4
    post: _
    """
    shape = bsearch(shape, 4)
    with concrete():
        reset_defaults()
        if shape == 0:
            m = Message('ADT_A01', version='2.5')
        elif shape == 1:
            m = Message('ADT_A01', version='2.7')
            m.pid = 'PID|1||A^B&C~D'
        elif shape == 2:
            m = Message('OML_O33', version='2.6', encoding_chars={'FIELD': '!', 'COMPONENT': '*', 'SUBCOMPONENT': '$',
                                                                'REPETITION': '@', 'ESCAPE': '?'})
        else:
            m = parse_message('MSH|^~\\&|A|B|||2020||ADT^A01|1|P|2.3\rEVN||2020\rPID|||1||S\rZZZ|x')
        return m.to_mllp(trailing_children=trailing) == '\x0b' + m.to_er7(trailing_children=trailing) + '\r' + '\x1c' + '\r'


# ---- X / S: a well-formed frame with a symbolic body, arbitrary first chunk --------------------------------------
def _clean(x):
    return all(b < 128 and b not in (0x0b, 0x1c, 0x0d) for b in x)


def _ob_extract(x: bytes, first: int, crtail: bool) -> bool:
    """
    pre: len(x) <= MAXBODY and 1 <= first <= 3
    pre: _clean(x)
    pre: in_part(len(x) * 3 + first - 1)
    post: _
    """
    payload = HDR + x + (CR if crtail else b'')
    conn, log, exc, same = serve(SB + payload + EB + CR, first)
    if exc is not None or not same:
        return False
    want = payload.decode('utf-8')
    return (len(log) == 2 and log[0][:3] == ('ctor', 'A01', want) and log[1] == ('reply', 'A01')
            and conn.sent == b'ACK-A01' and conn.closed >= 1)


# ---- T: truncation / stall: every cut point of a fixed frame, every first-chunk size, timeout at every step --------
FRAME = SB + HDR + b'1' + CR + EB + CR
NF = len(FRAME)


def _ob_trunc(cut: int, first: int, tmo: int) -> bool:
    """
    pre: 0 <= cut <= NF and 1 <= first <= 3 and -1 <= tmo <= NF
    pre: in_part(cut)
    post: _
    """
    cut = bsearch(cut, NF + 1)
    first = bsearch(first - 1, 3) + 1
    tmo = bsearch(tmo + 1, NF + 2) - 1
    with concrete():
        conn, log, exc, same = serve(FRAME[:cut], first, tmo)
        if exc is not None or not same:
            return False
        # bytes the handler could see before the stall
        complete = cut == NF and (tmo < 0 or tmo >= _steps_needed(first))
        if complete:
            return len(log) == 2 and log[0][1] == 'A01' and conn.sent == b'ACK-A01' and conn.closed >= 1
        return len(log) == 0 and conn.sent == b'' and conn.closed >= 1


def _steps_needed(first):
    # one recv that yields `first` bytes, then one read per remaining byte
    return 1 + (NF - first)


# ---- R: routing ------------------------------------------------------------------------------------------------
PAYLOADS = [
    (b'MSH|^~\\&|A|B|C|D|2020||ADT^A01|1|P|2.5\r', 'A01', None),
    (b'MSH|^~\\&|A|B|C|D|2020||QBP^Q22^QBP_Q21|1|P|2.5\rQPD|x\r', 'Q22', None),
    (b'MSH|^~\\&|A|B|C|D|2020||ADT^A04|1|P|2.5\r', 'ERR', 'UnsupportedMessageType'),
    (b'MSH|^~\\&|A|B|C|D|2020||  ADT^A01  |1|P|2.5\r', 'A01', None),       # get_message_type strips MSH-9
    (b'MSH|^~\\&|A|B\r', 'ERR', 'UnsupportedMessageType'),                   # no MSH-9 at all -> type None
    (b'PID|1||X\r', 'ERR', 'InvalidHL7Message'),
    (b'hello world', 'ERR', 'InvalidHL7Message'),
    (b'MSH|^~\\&&|A|B|C|D|2020||ADT^A01|1|P|2.5\r', 'ERR', 'InvalidEncodingChars'),
    (b'MSH|^~\\&#|A|B|C|D|2020||ADT^A01|1|P|2.7\r', 'A01', None),        # 2.7: five encoding characters, MSH-12 is the last field
    (b'MSH|^~\\&#|A|B|C|D|2020||QBP^Q22^QBP_Q21|1|P|2.8.2|\rQPD|x\r', 'Q22', None),
]
NP = len(PAYLOADS)


def _ob_route(pi: int, with_err: bool, first: int) -> bool:
    """
    pre: 0 <= pi < NP and 1 <= first <= 3
    post: _
    """
    pi = bsearch(pi, NP)
    first = bsearch(first - 1, 3) + 1
    with concrete():
        payload, who, excname = PAYLOADS[pi]
        conn, log, exc, same = serve(SB + payload + EB + CR, first, -1, with_err)
        if exc is not None or not same or conn.closed < 1:
            return False
        text = payload.decode('utf-8')
        if who != 'ERR':
            return (len(log) == 2 and log[0][1] == who and log[0][2] == text and log[1] == ('reply', who)
                    and conn.sent == ('ACK-' + who).encode())
        if with_err:
            return (len(log) == 2 and log[0][:3] == ('ctor', 'ERR', text) and log[0][3] == excname
                    and log[1] == ('reply', 'ERR') and conn.sent == b'NAK')
        return len(log) == 0 and conn.sent == b''


# ---- I: two connections served one after the other by ONE server object (a serial schedule of the threaded server) -------------------
def serve_two(pi, pj, with_err):
    del LOG[:]
    handlers = {'ADT^A01': (H_A01,), 'QBP^Q22^QBP_Q21': (H_Q22, 'extra')}
    if with_err:
        handlers['ERR'] = (_Err,)
    server = _Server(handlers)
    out = []
    for k in (pi, pj):
        start = len(LOG)
        conn = Conn(SB + PAYLOADS[k][0] + EB + CR, 3, -1)
        exc = None
        try:
            MLLPRequestHandler(conn, ('127.0.0.1', 1000 + len(out)), server)
        except Exception as e:
            exc = e
        out.append((conn, list(LOG[start:]), type(exc).__name__ if exc else None))
    return out


def _ob_iso(pi: int, pj: int, with_err: bool) -> bool:
    """
    pre: 0 <= pi < NP and 0 <= pj < NP
    post: _
    """
    pi, pj = bsearch(pi, NP), bsearch(pj, NP)
    with concrete():
        alone = {}
        for k in {pi, pj}:
            conn, log, exc, same = serve(SB + PAYLOADS[k][0] + EB + CR, 3, -1, with_err)
            alone[k] = (conn.sent, conn.closed >= 1, log, type(exc).__name__ if exc else None)
        (c1, l1, e1), (c2, l2, e2) = serve_two(pi, pj, with_err)
        # each connection: exactly what it gets alone (its own handler invocation, its own reply), and the first one's reply is
        # not touched by serving the second
        return (c1.sent, c1.closed >= 1, l1, e1) == alone[pi] and (c2.sent, c2.closed >= 1, l2, e2) == alone[pj]


# ---- M: arbitrary short frames over a 6-symbol alphabet ----------------------------------------------------------
def _wellformed(data):
    """SB payload EB CR with a non-empty payload that has no empty line (what the frame regex demands)"""
    if len(data) < 4 or data[:1] != SB or data[-2:] != EB + CR:
        return False
    body = data[1:-2]
    if not body:
        return False
    lines = body.split(CR)
    if lines[-1] == b'':
        lines = lines[:-1]
    return len(lines) >= 1 and all(len(ln) > 0 for ln in lines)


def _frames():
    out = [b'']
    level = [b'']
    for _ in range(MAXRAW):
        level = [f + a for f in level for a in ALPH]
        out.extend(level)
    return out


FRAMES = _frames()
NFR = len(FRAMES)


def _ob_raw(r: int, first: int) -> bool:
    """
    pre: 0 <= r < NFR and 1 <= first <= 3
    pre: in_part(r)
    post: _
    """
    r = bsearch(r, NFR)
    first = bsearch(first - 1, 3) + 1
    with concrete():
        data = FRAMES[r]
        conn, log, exc, same = serve(data, first)
        ctors = [e for e in log if e[0] == 'ctor']
        replies = [e for e in log if e[0] == 'reply']
        if not same or len(ctors) > 1 or len(replies) != len(ctors):
            return False
        if exc is not None:
            # undecodable bytes propagate out of handle(); socketserver then closes the connection
            return isinstance(exc, UnicodeDecodeError) and not ctors and conn.sent == b''
        if conn.closed < 1:
            return False
        # the handler reads up to and including the first EB CR; what follows is never looked at
        end = data.find(EB + CR)
        seen = data if end < 0 else data[:end + 2]
        if ctors:
            # a handler runs only for a well-formed frame whose bytes decode; it is given exactly the framed text
            try:
                text = seen[1:-2].decode('utf-8')
            except UnicodeDecodeError:
                return False
            return _wellformed(seen) and len(conn.sent) > 0 and ctors[0][2] == text
        return conn.sent == b''


def explain(call):
    import re
    m = re.match(r'(\w+)\((.*)\)$', call, re.S)
    a, kw = eval('(lambda *a, **k: (a, k))(%s)' % m.group(2))
    name = m.group(1)
    out = []
    if name == '_ob_extract':
        v = dict(zip(['x', 'first', 'crtail'], a)); v.update(kw)
        payload = HDR + v['x'] + (CR if v['crtail'] else b'')
        conn, log, exc, same = serve(SB + payload + EB + CR, v['first'])
        out.append('frame %r first-recv<=%d -> log %r sent %r closed %d exc %r' % (SB + payload + EB + CR, v['first'], log, conn.sent, conn.closed, exc))
    elif name == '_ob_trunc':
        v = dict(zip(['cut', 'first', 'tmo'], a)); v.update(kw)
        conn, log, exc, same = serve(FRAME[:v['cut']], v['first'], v['tmo'])
        out.append('bytes %r first-recv<=%d timeout-after-step %d -> log %r sent %r closed %d exc %r' % (FRAME[:v['cut']], v['first'], v['tmo'], log, conn.sent, conn.closed, exc))
    elif name == '_ob_route':
        v = dict(zip(['pi', 'with_err', 'first'], a)); v.update(kw)
        payload = PAYLOADS[v['pi']][0]
        conn, log, exc, same = serve(SB + payload + EB + CR, v['first'], -1, v['with_err'])
        out.append('payload %r ERR-handler=%s -> log %r sent %r closed %d exc %r (expected %r)' % (payload, v['with_err'], log, conn.sent, conn.closed, exc, PAYLOADS[v['pi']][1:]))
    elif name == '_ob_iso':
        v = dict(zip(['pi', 'pj', 'with_err'], a)); v.update(kw)
        (c1, l1, e1), (c2, l2, e2) = serve_two(v['pi'], v['pj'], v['with_err'])
        out.append('one server, connection 1 %r -> log %r sent %r exc %r ; connection 2 %r -> log %r sent %r exc %r' % (
            PAYLOADS[v['pi']][0], l1, c1.sent, e1, PAYLOADS[v['pj']][0], l2, c2.sent, e2))
    elif name == '_ob_raw':
        v = dict(zip(['r', 'first'], a)); v.update(kw)
        data = FRAMES[v['r']]
        conn, log, exc, same = serve(data, v['first'])
        out.append('bytes %r first-recv<=%d -> log %r sent %r closed %d exc %r' % (data, v['first'], log, conn.sent, conn.closed, exc))
    return '\n'.join(out)


SPEC = {
    'property': 'C16',
    'files': ['hl7apy/mllp.py', 'hl7apy/core.py', 'hl7apy/consts.py', 'hl7apy/parser.py'],
    'functions_encoded': ['hl7apy.mllp.MLLPRequestHandler.setup/handle/_extract_hl7_message/_route_message/_create_handler/'
                          '_create_error_handler', 'hl7apy.parser.get_message_type/_split_msh', 'hl7apy.core.Message.to_mllp',
                          'socketserver.StreamRequestHandler.__init__/setup/finish (real)'],
    'assumptions': ['connection stub: recv(n) returns min(n, first, available) bytes with symbolic first in 1..3; rfile.read(1) '
                    'returns the next byte or b"" at end of input; either raises socket.timeout after a symbolic number of steps',
                    'an exception escaping handle() is what socketserver turns into closing the connection (checked: only '
                    'UnicodeDecodeError, with no handler invoked and nothing sent)'],
    'outside': ['N simultaneous clients / ThreadingTCPServer threads; kernel TCP segmentation timing beyond "recv returns 1..3 '
                'bytes, then byte-wise reads"; frames longer than the bounds'],
    'stubs': ['Conn.send transmits at most 2 bytes per call and returns the count (the documented contract of socket.send); sendall / wfile.write transmit everything', 'socket connection (recv/makefile/sendall/close/settimeout)', 'server object with .handlers/.timeout'],
    'obligations': [
        {'name': 'F.frame', 'fn': '_ob_frame', 'parts': 1, 'cond_timeout': 300, 'path_timeout': 60,
         'bound': 'to_mllp() == SB+to_er7()+CR+EB+CR for 4 message shapes x trailing_children'},
        {'name': 'X.extract', 'fn': '_ob_extract', 'parts': 3 * (MAXBODY + 1), 'cond_timeout': {'quick': 300, 'thorough': 1500},
         'path_timeout': 60,
         'bound': 'frame SB+HDR+x(+CR)+EB+CR, x every 7-bit byte string without SB/EB/CR, len(x)<=%d, first recv 1..3 bytes: '
                  'exactly one handler (the registered one) gets exactly the framed text, one reply, closed' % MAXBODY},
        {'name': 'T.trunc', 'fn': '_ob_trunc', 'parts': 16, 'cond_timeout': 600, 'path_timeout': 60,
         'bound': 'every prefix of a %d-byte frame x first recv 1..3 x timeout after every step: complete -> one reply, else none; always closed' % NF},
        {'name': 'I.pairs', 'fn': '_ob_iso', 'parts': 1, 'cond_timeout': 300, 'path_timeout': 60,
         'bound': 'every ordered pair of the %d routing payloads, with and without ERR handler, served one after the other by ONE server '
                  'object and handlers table: each connection causes the handler invocation and gets the reply it gets alone (a serial '
                  'schedule of the threaded server; simultaneous clients are outside)' % NP},
        {'name': 'R.route', 'fn': '_ob_route', 'parts': 1, 'cond_timeout': 300, 'path_timeout': 60,
         'bound': '%d payload kinds x ERR handler present/absent x first recv 1..3' % NP},
        {'name': 'M.raw', 'fn': '_ob_raw', 'parts': 32, 'cond_timeout': {'quick': 600, 'thorough': 2400}, 'path_timeout': 60,
         'bound': 'every byte string of length <=%d over {SB,EB,CR,M,|,0xC3} x first recv 1..3' % MAXRAW},
    ],
}
