"""C12 - a rejected operation leaves its target unchanged (E1: bounded histories incl. refused operations, both levels)."""
from vlib.chglue import PART_K, PART_N, TIER, THOROUGH, in_part, reset_defaults, concrete
from harness import hist as H

MODE = 'atomic'
# quick: two child names (one repeatable complex, one non-repeatable / different class) and repetition indices 0..1;
# thorough: the full alphabet of harness/hist.py
_NAMES = None if THOROUGH else [0, 2]
_NIDX = None if THOROUGH else 2
SEG_ACTS = H.actions('seg', H.FULL_OPS + H.REJECT_OPS, _NAMES, _NIDX)
MSG_ACTS = H.actions('msg', H.FULL_OPS + H.REJECT_OPS, _NAMES, _NIDX)
FLD_ACTS = H.actions('fld', H.FULL_OPS + H.REJECT_OPS, _NAMES, _NIDX)
CORE_SEG = H.actions('seg', H.CORE_OPS + [H.REATTACH, H.OTHERLVL, H.SETELEM, H.IDXELEMLVL, H.READ, H.DTCHANGE, H.NESTED, H.PROXYVAL], [0, 2], 2)
NSEG, NMSG, NFLD, NCORE = len(SEG_ACTS), len(MSG_ACTS), len(FLD_ACTS), len(CORE_SEG)
NINIT = {'seg': 3, 'msg': 2, 'fld': 2}
NI_SEG, NI_MSG, NI_FLD = 3, 2, 2
TABLE = {'_ob_seg2': ('seg', SEG_ACTS), '_ob_msg2': ('msg', MSG_ACTS), '_ob_fld2': ('fld', FLD_ACTS), '_ob_seg3': ('seg', CORE_SEG)}


def _ob_seg2(init: int, strict: bool, a1: int, a2: int) -> bool:
    """
    pre: 0 <= init < NI_SEG and 0 <= a1 < NSEG and 0 <= a2 < NSEG
    pre: in_part(a1)
    post: _
    """
    init = H.concretize(init, NI_SEG)
    a1 = H.concretize(a1, NSEG)
    a2 = H.concretize(a2, NSEG)
    level = 1 if strict else 2
    with concrete():
        return H.run_checks('seg', init, level, [SEG_ACTS[a1], SEG_ACTS[a2]], MODE)


def _ob_msg2(init: int, strict: bool, a1: int, a2: int) -> bool:
    """
    pre: 0 <= init < NI_MSG and 0 <= a1 < NMSG and 0 <= a2 < NMSG
    pre: in_part(a1)
    post: _
    """
    init = H.concretize(init, NI_MSG)
    a1 = H.concretize(a1, NMSG)
    a2 = H.concretize(a2, NMSG)
    level = 1 if strict else 2
    with concrete():
        return H.run_checks('msg', init, level, [MSG_ACTS[a1], MSG_ACTS[a2]], MODE)


def _ob_fld2(init: int, strict: bool, a1: int, a2: int) -> bool:
    """
    pre: 0 <= init < NI_FLD and 0 <= a1 < NFLD and 0 <= a2 < NFLD
    pre: in_part(a1)
    post: _
    """
    init = H.concretize(init, NI_FLD)
    a1 = H.concretize(a1, NFLD)
    a2 = H.concretize(a2, NFLD)
    level = 1 if strict else 2
    with concrete():
        return H.run_checks('fld', init, level, [FLD_ACTS[a1], FLD_ACTS[a2]], MODE)


def _ob_seg3(init: int, strict: bool, a1: int, a2: int, a3: int) -> bool:
    """
    pre: 0 <= init < NI_SEG and 1 <= a1 < NCORE and 1 <= a2 < NCORE and 1 <= a3 < NCORE
    pre: in_part(a1 * NCORE + a2)
    post: _
    """
    init = H.concretize(init, NI_SEG)
    a1 = H.concretize(a1, NCORE)
    a2 = H.concretize(a2, NCORE)
    a3 = H.concretize(a3, NCORE)
    level = 1 if strict else 2
    with concrete():
        return H.run_checks('seg', init, level, [CORE_SEG[a1], CORE_SEG[a2], CORE_SEG[a3]], MODE)


def explain(call):
    import re
    m = re.match(r'(\w+)\((.*)\)$', call, re.S)
    a, k = eval('(lambda *a, **k: (a, k))(%s)' % m.group(2))
    target, alphabet = TABLE[m.group(1)]
    v = dict(zip(['init', 'strict', 'a1', 'a2', 'a3'], a))
    v.update(k)
    acts = [alphabet[v[x]] for x in ('a1', 'a2', 'a3') if x in v]
    level = 1 if v['strict'] else 2
    tr = ['target %s, init=%d, level=%s' % (target, v['init'], 'STRICT' if level == 1 else 'TOLERANT')]
    H.run_checks(target, v['init'], level, acts, MODE, tr)
    return '\n'.join(tr)


_ALL = ', '.join(H.OPNAMES[o] for o in H.FULL_OPS + H.REJECT_OPS)
SPEC = {
    'property': 'C12',
    'files': ['hl7apy/core.py', 'hl7apy/parser.py'],
    'functions_encoded': ['hl7apy.core.ElementList (all methods)', 'hl7apy.core.ElementProxy (all methods)',
                          'hl7apy.core.Element.__setattr__/__delattr__/__getattr__/add/_set_parent/_set_traversal_parent/'
                          'set_parent_to_traversal', 'hl7apy.core.SupportComplexDataType._set_value/_set_datatype/_is_valid_child',
                          'hl7apy.core.Segment/Field/Component/Group/Message add, add_*, find_child_reference'],
    'assumptions': ['HL7 v2.5, both validation levels (symbolic)',
                    'the observer reads ElementList.list/indexes/traversal_indexes and Element._parent from outside; it never writes',
                    'every action index is symbolic; CrossHair/z3 enumerate the finite action space (fork per value) and certify '
                    'exhaustion; once a path has fixed the history the library code runs concretely (untraced) on it'],
    'outside': ['histories longer than the bound; other element kinds / child names than those listed in harness/hist.py TARGETS'],
    'stubs': [],
    'obligations': [
        {'name': 'seg.len2', 'fn': '_ob_seg2', 'parts': 16, 'cond_timeout': 900, 'path_timeout': 40,
         'bound': 'Segment PID (inside an ADT_A01), 3 initial states x 2 levels x every history of length <=2 over %d actions (%s)' % (NSEG, _ALL)},
        {'name': 'msg.len2', 'fn': '_ob_msg2', 'parts': 16, 'cond_timeout': 900, 'path_timeout': 60,
         'bound': 'Message ADT_A01, 2 initial states x 2 levels x every history of length <=2 over %d actions' % NMSG},
    ] + ([
        {'name': 'fld.len2', 'fn': '_ob_fld2', 'parts': 16, 'cond_timeout': 900, 'path_timeout': 60,
         'bound': 'Field PID_5, 2 initial states x 2 levels x every history of length <=2 over %d actions' % NFLD},
        {'name': 'seg.len3', 'fn': '_ob_seg3', 'parts': 64, 'cond_timeout': 3000, 'path_timeout': 40,
         'bound': 'Segment PID, 3 initial states x 2 levels x every history of length 3 over %d selected actions' % (NCORE - 1)},
    ] if THOROUGH else []),
}
