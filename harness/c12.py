"""C12 - a rejected operation leaves its target unchanged (E1: bounded histories incl. refused operations, both levels)."""
from vlib.chglue import PART_K, PART_N, TIER, THOROUGH, in_part, reset_defaults, concrete
from harness import hist as H

MODE = 'atomic'
# quick: two child names (one repeatable complex, one non-repeatable / different class) and repetition indices 0..1;
# thorough: the full alphabet of harness/hist.py
_NAMES = None if THOROUGH else [0, 2]
_NIDX = None if THOROUGH else 2
SEG_ACTS = H.actions('seg', H.FULL_OPS + H.REJECT_OPS, _NAMES, _NIDX)
MSG_ACTS = H.actions('msg', H.FULL_OPS + H.REJECT_OPS, _NAMES, _NIDX)
FLD_ACTS = H.actions('fld', H.FULL_OPS + H.REJECT_OPS, _NAMES, _NIDX)
CORE_SEG = H.actions('seg', H.CORE_OPS + [H.REATTACH, H.OTHERLVL, H.SETELEM, H.IDXELEMLVL, H.READ, H.DTCHANGE, H.NESTED, H.PROXYVAL], [0, 2], 2)
NSEG, NMSG, NFLD, NCORE = len(SEG_ACTS), len(MSG_ACTS), len(FLD_ACTS), len(CORE_SEG)
NINIT = {'seg': 3, 'msg': 2, 'fld': 2}
NI_SEG, NI_MSG, NI_FLD = 3, 2, 2
TABLE = {'_ob_seg2': ('seg', SEG_ACTS), '_ob_msg2': ('msg', MSG_ACTS), '_ob_fld2': ('fld', FLD_ACTS), '_ob_seg3': ('seg', CORE_SEG)}


def _ob_seg2(init: int, strict: bool, a1: int, a2: int) -> bool:
    """
    pre: 0 <= init < NI_SEG and 0 <= a1 < NSEG and 0 <= a2 < NSEG
    pre: in_part(a1)
    post: _
    """
    init = H.concretize(init, NI_SEG)
    a1 = H.concretize(a1, NSEG)
    a2 = H.concretize(a2, NSEG)
    level = 1 if strict else 2
    with concrete():
        return H.run_checks('seg', init, level, [SEG_ACTS[a1], SEG_ACTS[a2]], MODE)


def _ob_msg2(init: int, strict: bool, a1: int, a2: int) -> bool:
    """
    pre: 0 <= init < NI_MSG and 0 <= a1 < NMSG and 0 <= a2 < NMSG
    pre: in_part(a1)
    post: _
    """
    init = H.concretize(init, NI_MSG)
    a1 = H.concretize(a1, NMSG)
    a2 = H.concretize(a2, NMSG)
    level = 1 if strict else 2
    with concrete():
        return H.run_checks('msg', init, level, [MSG_ACTS[a1], MSG_ACTS[a2]], MODE)


def _ob_fld2(init: int, strict: bool, a1: int, a2: int) -> bool:
    """
    pre: 0 <= init < NI_FLD and 0 <= a1 < NFLD and 0 <= a2 < NFLD
    pre: in_part(a1)
    post: _
    """
    init = H.concretize(init, NI_FLD)
    a1 = H.concretize(a1, NFLD)
    a2 = H.concretize(a2, NFLD)
    level = 1 if strict else 2
    with concrete():
        return H.run_checks('fld', init, level, [FLD_ACTS[a1], FLD_ACTS[a2]], MODE)


def _ob_seg3(init: int, strict: bool, a1: int, a2: int, a3: int) -> bool:
    """
    pre: 0 <= init < NI_SEG and 1 <= a1 < NCORE and 1 <= a2 < NCORE and 1 <= a3 < NCORE
    pre: in_part(a1 * NCORE + a2)
    post: _
    """
    init = H.concretize(init, NI_SEG)
    a1 = H.concretize(a1, NCORE)
    a2 = H.concretize(a2, NCORE)
    a3 = H.concretize(a3, NCORE)
    level = 1 if strict else 2
    with concrete():
        return H.run_checks('seg', init, level, [CORE_SEG[a1], CORE_SEG[a2], CORE_SEG[a3]], MODE)


# ---- O.open: refused operations on an OPEN-ENDED segment that holds fields beyond its structure ---------------------------------
# (what such a segment encodes depends on a counter next to its children list, not only on the list)
OPEN_SEGS = [('QPD', '2.5', 3), ('ZIN', '2.5', 0), ('RDT', '2.7', 1)]      # (segment, version, number of defined fields)
OPEN_OPS = ['value = text that repeats a non-repeatable field', 'value = text with an over-long ST', 'value = text of another segment',
            'add(field of another segment)', 'add(field of another version)', 'extra field = over-long value', 'del absent extra field',
            'children.set(unknown name)']
NOS, NOO = len(OPEN_SEGS), len(OPEN_OPS)


def open_check(si, oi, nextra, level, trace=None):
    from hl7apy.core import Message, Segment, Field
    reset_defaults()
    name, v, ndef = OPEN_SEGS[si]
    seg = Segment(name, version=v, validation_level=level)
    for k in range(1, ndef + 1):
        setattr(seg, '%s_%d' % (name.lower(), k), 'a%d' % k)
    for k in range(ndef + 1, ndef + 1 + nextra):          # the fields beyond the structure
        setattr(seg, '%s_%d' % (name.lower(), k + 1), 'x%d' % k)
    snap = lambda: (seg.to_er7(), seg.to_er7(trailing_children=True), tuple(id(c) for c in seg.children),
                    tuple(c.to_er7() for c in seg.children))
    before = snap()
    low = name.lower()
    try:
        if oi == 0:
            seg.value = '%s|A~B~C|1|2|3|4|5|6|7' % name if name != 'ZIN' else 'ZIN|' + 'x' * 70000
        elif oi == 1:
            seg.value = '%s|%s' % (name, 'x' * 70000)
        elif oi == 2:
            seg.value = 'PID|1||2'
        elif oi == 3:
            seg.add(Field('PID_3', version=v, validation_level=level))
        elif oi == 4:
            seg.add(Field('%s_%d' % (name, ndef + 9), version='2.3' if v != '2.3' else '2.4', validation_level=level))
        elif oi == 5:
            setattr(seg, '%s_%d' % (low, ndef + 7), 'y' * 70000)
        elif oi == 6:
            delattr(seg, '%s_%d' % (low, ndef + 20))
        else:
            seg.children.set('NOSUCH_1', 'v')
        raised = None
    except Exception as e:
        raised = e
    after = snap()
    if trace is not None:
        trace.append('%s v%s with %d extra fields, level %d: %s -> %s\n  before %r\n  after  %r' % (
            name, v, nextra, level, OPEN_OPS[oi], 'raised %s' % type(raised).__name__ if raised else 'accepted', before[:2], after[:2]))
    return raised is None or before == after


def _ob_open(si: int, oi: int, nextra: int, strict: bool) -> bool:
    """
    pre: 0 <= si < NOS and 0 <= oi < NOO and 0 <= nextra <= 3
    post: _
    """
    from harness.c02 import bsearch
    si, oi, nextra = bsearch(si, NOS), bsearch(oi, NOO), bsearch(nextra, 4)
    level = 1 if strict else 2
    with concrete():
        return open_check(si, oi, nextra, level)


def explain(call):
    import re
    m = re.match(r'(\w+)\((.*)\)$', call, re.S)
    a, k = eval('(lambda *a, **k: (a, k))(%s)' % m.group(2))
    if m.group(1) == '_ob_open':
        v = dict(zip(['si', 'oi', 'nextra', 'strict'], a))
        v.update(k)
        tr = []
        open_check(v['si'], v['oi'], v['nextra'], 1 if v['strict'] else 2, tr)
        return '\n'.join(tr)
    target, alphabet = TABLE[m.group(1)]
    v = dict(zip(['init', 'strict', 'a1', 'a2', 'a3'], a))
    v.update(k)
    acts = [alphabet[v[x]] for x in ('a1', 'a2', 'a3') if x in v]
    level = 1 if v['strict'] else 2
    tr = ['target %s, init=%d, level=%s' % (target, v['init'], 'STRICT' if level == 1 else 'TOLERANT')]
    H.run_checks(target, v['init'], level, acts, MODE, tr)
    return '\n'.join(tr)


_ALL = ', '.join(H.OPNAMES[o] for o in H.FULL_OPS + H.REJECT_OPS)
SPEC = {
    'property': 'C12',
    'files': ['hl7apy/core.py', 'hl7apy/parser.py'],
    'functions_encoded': ['hl7apy.core.ElementList (all methods)', 'hl7apy.core.ElementProxy (all methods)',
                          'hl7apy.core.Element.__setattr__/__delattr__/__getattr__/add/_set_parent/_set_traversal_parent/'
                          'set_parent_to_traversal', 'hl7apy.core.SupportComplexDataType._set_value/_set_datatype/_is_valid_child',
                          'hl7apy.core.Segment/Field/Component/Group/Message add, add_*, find_child_reference'],
    'assumptions': ['HL7 v2.5, both validation levels (symbolic)',
                    'the observer reads ElementList.list/indexes/traversal_indexes and Element._parent from outside; it never writes',
                    'every action index is symbolic; CrossHair/z3 enumerate the finite action space (fork per value) and certify '
                    'exhaustion; once a path has fixed the history the library code runs concretely (untraced) on it'],
    'outside': ['histories longer than the bound; other element kinds / child names than those listed in harness/hist.py TARGETS'],
    'stubs': [],
    'obligations': [
        {'name': 'seg.len2', 'fn': '_ob_seg2', 'parts': 16, 'cond_timeout': 900, 'path_timeout': 40,
         'bound': 'Segment PID (inside an ADT_A01), 3 initial states x 2 levels x every history of length <=2 over %d actions (%s)' % (NSEG, _ALL)},
        {'name': 'msg.len2', 'fn': '_ob_msg2', 'parts': 16, 'cond_timeout': 900, 'path_timeout': 60,
         'bound': 'Message ADT_A01, 2 initial states x 2 levels x every history of length <=2 over %d actions' % NMSG},
        {'name': 'O.open', 'fn': '_ob_open', 'parts': 1, 'cond_timeout': 600, 'path_timeout': 60,
         'bound': 'open-ended segments %r holding 0..3 fields beyond their structure x %d refusable operations x 2 levels: when the '
                  'call raises, encoding (with and without trailing children) and children are as before' % ([x[0] for x in OPEN_SEGS], NOO)},
    ] + ([
        {'name': 'fld.len2', 'fn': '_ob_fld2', 'parts': 16, 'cond_timeout': 900, 'path_timeout': 60,
         'bound': 'Field PID_5, 2 initial states x 2 levels x every history of length <=2 over %d actions' % NFLD},
        {'name': 'seg.len3', 'fn': '_ob_seg3', 'parts': 64, 'cond_timeout': 3000, 'path_timeout': 40,
         'bound': 'Segment PID, 3 initial states x 2 levels x every history of length 3 over %d selected actions' % (NCORE - 1)},
    ] if THOROUGH else []),
}
