"""C04 - validate() accepts conforming messages and pinpoints each structural defect; validate() is a pure,
deterministic observation with consistent return / raise / report forms (E1).

S.seg   every (version, segment) of the live tables: conforming instance (required fields only / every field once) built by the
        reference builder, and single-point mutations (drop the t-th required field, repeat the t-th non-repeatable field,
        unknown extra field, wrong datatype override)
M.msg   message structures: conforming instance (required children only / all children once) and single-point mutations
        (drop the t-th required top-level child, repeat a non-repeatable segment, foreign segment, unknown structure)
P.pure  purity / determinism / report consistency are asserted on every one of the above
"""
import io
import os
import tempfile
import random
import re

from vlib.chglue import PART_K, PART_N, TIER, THOROUGH, SEED, in_part, reset_defaults, concrete, known_open
from harness.c02 import bsearch
from harness import tables as T
from harness import builder as B
from hl7apy.core import Segment, Field
from hl7apy.parser import parse_segment, parse_message
from hl7apy.exceptions import ValidationError

SEG_ROWS = [(v, s) for v in T.VERSIONS for s in T.SEGS[v] if T.seg_children(v, s) and s != 'MSH']
if not THOROUGH:
    _rnd = random.Random(4000 + SEED)
    SEG_ROWS = [r for r in SEG_ROWS if r[0] == '2.5'] + _rnd.sample([r for r in SEG_ROWS if r[0] != '2.5'], 150)
NSEG = len(SEG_ROWS)
SEG_KINDS = ['required', 'all', 'drop-required', 'repeat-single', 'unknown-field', 'wrong-datatype']
NSK = len(SEG_KINDS)
NT = 4     # which required / non-repeatable field is mutated (t modulo their number)

MSG_PANEL = [('2.5', 'ADT_A01'), ('2.5', 'OML_O33'), ('2.5', 'RSP_K21'), ('2.5', 'ORU_R01'), ('2.3', 'ADT_A01'), ('2.4', 'ORM_O01'),
             ('2.6', 'ADT_A01'), ('2.7', 'ORU_R01'), ('2.5', 'ACK'), ('2.5', 'QBP_Q21'), ('2.5', 'SIU_S12'), ('2.8', 'ADT_A01')]


def _msgs():
    out = [(v, m) for (v, m) in MSG_PANEL if m in T.LIBS[v].MESSAGES]
    rnd = random.Random(5000 + SEED)
    # structures naming the pseudo-segments ANY / ANYHL7SEGMENT have no fixed shape
    # (names such as RTB_Knn / MFN_Znn are templates of the standard, 'nn' standing for digits: no message carries them;
    #  the builder names a structure through MSH-9 = <type>^<event>^<structure>, so it needs a name of the form TYPE_EVENT: ACK and QRY are left out)
    rest = [(v, m) for v in T.VERSIONS for m in T.MSGS[v] if (v, m) not in out and m == m.upper() and '_' in m and
            all(n in T.SEGS[v] and T.seg_children(v, n) is not None for n in B.structure_names(T.LIBS[v].MESSAGES[m]))]
    out += rnd.sample(rest, 160 if THOROUGH else 24)
    return out


MSGS = _msgs()
NMSG = len(MSGS)
MSG_KINDS = ['required', 'all', 'drop-required', 'repeat-single', 'foreign-segment', 'z-segment']
NMK = len(MSG_KINDS)


def observe(el, trace=None):
    """runs validate in its three forms and checks purity / determinism / consistency; returns (ok, report)"""
    before = el.to_er7()
    r1 = el.validate(return_errors=True)
    r2 = el.validate(return_errors=True)
    buf = io.StringIO()
    r3 = el.validate(report_file=buf, return_errors=True)
    after = el.to_er7()
    sig = lambda r: (r.is_valid, [str(e) for e in r.errors], [str(w) for w in r.warnings])
    ok = before == after and sig(r1) == sig(r2) == sig(r3) and r1.is_valid == (not r1.errors)
    want_report = ''.join('Error: %s\n' % e for e in r1.errors) + ''.join('Warning: %s\n' % w for w in r1.warnings)
    ok = ok and buf.getvalue() == want_report
    try:
        res = el.validate()
        ok = ok and res is True and not r1.errors
    except Exception as e:
        ok = ok and bool(r1.errors) and type(e) is type(r1.errors[0]) and str(e) == str(r1.errors[0])
    ok = ok and el.to_er7() == before
    # report file given as a PATH: complete when validate() returns, and - in the raising form - as soon as the exception is
    # caught (it is read while the exception and its traceback are still alive)
    fd, path = tempfile.mkstemp(prefix='vp_c04_', suffix='.txt')
    os.close(fd)
    try:
        el.validate(report_file=path, return_errors=True)
        with open(path) as f:
            ok_path = f.read() == want_report
        try:
            el.validate(report_file=path)
            with open(path) as f:
                ok_path = ok_path and f.read() == want_report
        except Exception as held:
            with open(path) as f:
                ok_path = ok_path and f.read() == want_report
            del held
    finally:
        os.unlink(path)
    if not ok_path and trace is not None:
        trace.append('report file given as a path does not hold exactly the reported errors and warnings when validate() returns / raises')
    ok = ok and ok_path
    # ... and it does not depend on what has been READ before: navigate (read-only) to every child the structure names
    try:
        for name in list(el.structure_by_name or {}):
            p = getattr(el, name.lower())
            len(p)
            if el.classname in ('Segment',):
                try:
                    p.value
                except Exception:
                    pass
        r4 = el.validate(return_errors=True)
        ok = ok and sig(r4) == sig(r1) and el.to_er7() == before
    except Exception as e:
        if trace is not None:
            trace.append('validate after read-only navigation raised %r' % (e,))
        ok = False
    if trace is not None and not ok:
        trace.append('purity/consistency failed: before %r after %r reports %r / %r / %r file %r' % (before, after, sig(r1), sig(r2), sig(r3), buf.getvalue()))
    return ok, r1


def seg_check(v, s, kind, t, trace=None):
    reset_defaults()
    ch = T.seg_children(v, s)
    req = [c for c in ch if c[2][0] >= 1 and B.field_text(v, c[1]) != '']
    single = [c for c in ch if c[2][1] == 1 and B.field_text(v, c[1]) != '']
    k = SEG_KINDS[kind]
    expect = None
    if k in ('required', 'all'):
        seg = parse_segment(B.segment_text(v, s, k), version=v, validation_level=2)
    elif k == 'drop-required':
        if not req:
            return True
        c = req[t % len(req)]
        seg = parse_segment(B.segment_text(v, s, 'required', skip=c[0]), version=v, validation_level=2)
        expect = 'Missing required child %s.%s' % (s, c[0])
    elif k == 'repeat-single':
        if not single:
            return True
        c = single[t % len(single)]
        # make sure the repeated field is present: use the 'all' form when it is optional
        seg = parse_segment(B.segment_text(v, s, 'all' if c[2][0] < 1 else 'required', dup=c[0]), version=v, validation_level=2)
        expect = 'Child limit exceeded %s.%s' % (s, c[0])
    elif k == 'unknown-field':
        seg = parse_segment(B.segment_text(v, s, 'required'), version=v, validation_level=2)
        if seg.allow_infinite_children:
            return True
        seg.add(Field(version=v, validation_level=2))
        expect = ('Unknown element found', 'Invalid children detected for <Segment %s>' % s)
    else:
        leafs = [c for c in ch if c[1][0] == 'leaf' and c[1][2] in ('ST', 'ID', 'IS', 'NM', 'SI') and B.field_text(v, c[1]) != '']
        if not leafs:
            return True
        c = leafs[t % len(leafs)]
        seg = parse_segment(B.segment_text(v, s, 'required'), version=v, validation_level=2)
        other = 'TX' if c[1][2] != 'TX' else 'ST'
        f = Field(c[0], datatype=other, version=v, validation_level=2)
        f.value = 'x'
        setattr(seg, c[0].lower(), f)
        expect = 'Datatype %s is not correct for %s.%s' % (other, s, c[0])
    ok, rep = observe(seg, trace)
    errs = [str(e) for e in rep.errors]
    if expect is None:
        verdict = rep.is_valid
    else:
        verdict = (not rep.is_valid) and any(e.startswith(expect) for e in errs)     # expect: a prefix or a tuple of prefixes
    if trace is not None:
        trace.append('%s %s [%s, t=%d] text %r\n  expected %s\n  errors %r' % (v, s, k, t, seg.to_er7(), expect or 'valid', errs))
    return ok and verdict


def msg_check(v, mname, kind, t, fg, trace=None):
    reset_defaults()
    ref = T.LIBS[v].MESSAGES[mname]
    k = MSG_KINDS[kind]
    top = [c for c in ref[1] if c[0] != 'MSH']
    expect = None
    if k in ('required', 'all'):
        text = B.message_text(v, mname, k)
    else:
        nodes = B.message_nodes(ref, 'required')
        lines = [B.msh_text(v, mname)]
        req_top = [c for c in top if c[2][0] >= 1]
        if k == 'drop-required':
            if not req_top:
                return True
            victim = req_top[t % len(req_top)][0]
            nodes = [n for n in nodes if n[1] != victim]
            expect = 'Missing required child %s.%s' % (mname, victim)
        names = B.flatten(nodes)
        if k == 'repeat-single':
            single = [c for c in top if c[3] == 'SEG' and c[2][1] == 1 and c[0] in names]
            if not single or not fg:
                return True     # without group-finding every segment hangs off the message: cardinalities of nested ones differ
            victim = single[t % len(single)][0]
            names.insert(names.index(victim) + 1, victim)
            expect = 'Child limit exceeded %s.%s' % (mname, victim)
        for n in names:
            lines.append(B.segment_text(v, n, 'required') if T.seg_children(v, n) else n)
        if k == 'foreign-segment':
            allnames = set()
            _collect(ref, allnames)
            foreign = [s for s in ('ORC', 'EVN', 'DSC', 'NTE', 'PID', 'QRD') if s not in allnames and s in T.LIBS[v].SEGMENTS and T.seg_children(v, s)]
            if not foreign:
                return True
            lines.append(B.segment_text(v, foreign[0], 'required'))
            expect = 'Invalid children detected for <Message %s>' % mname
        if k == 'z-segment':
            lines.append('ZZZ|1|2')
        text = '\r'.join(lines)
    # as in C08: only instances whose segment names each occur at a single place in the structure have a prescribed tree
    allnames = B.structure_names(ref)
    used = [ln[:3] for ln in text.split('\r')[1:] if ln[:3] != 'ZZZ']
    if k != 'foreign-segment' and any(allnames.count(n) != 1 for n in used):
        return True
    m = parse_message(text, validation_level=2, find_groups=fg)
    ok, rep = observe(m, trace)
    errs = [str(e) for e in rep.errors]
    if expect is None:
        if not fg and _has_groups(ref):
            verdict = True      # segments of nested groups hang off the message itself: not a conforming tree by construction
        else:
            verdict = rep.is_valid
    else:
        verdict = (not rep.is_valid) and any(e.startswith(expect) for e in errs)
    if trace is not None:
        trace.append('%s %s [%s, t=%d, find_groups=%s]\n  text %r\n  expected %s\n  errors %r' % (v, mname, k, t, fg, text, expect or 'valid', errs))
    return ok and verdict


def _collect(ref, acc):
    for c in ref[1]:
        if c[3] == 'SEG':
            acc.add(c[0])
        else:
            _collect(c[1], acc)


def _has_groups(ref):
    return any(c[3] == 'GRP' for c in ref[1])


def _witness_dupnames():
    """recorded finding C04-duplicate-child-names: a structure that lists the same child twice under one parent (v2.2 ADT_A17:
    PID PV1 PID PV1) - a conforming instance must validate"""
    reset_defaults()
    text = ('MSH|^~\\&|A|B|C|D|2020||ADT^A17|1|P|2.2\rEVN|A17|2020\r' + B.segment_text('2.2', 'PID', 'required') + '\r' +
            B.segment_text('2.2', 'PV1', 'required') + '\r' + B.segment_text('2.2', 'PID', 'required') + '\r' + B.segment_text('2.2', 'PV1', 'required'))
    m = parse_message(text, validation_level=2)
    errs = [str(e) for e in m.validate(return_errors=True).errors]
    return not [e for e in errs if e.startswith('Child limit exceeded')]


def _ob_seg(r: int, kind: int, t: int) -> bool:
    """
    pre: 0 <= r < NSEG and 0 <= kind < NSK and 0 <= t < NT
    pre: in_part(r)
    post: _
    """
    r, kind, t = bsearch(r, NSEG), bsearch(kind, NSK), bsearch(t, NT)
    with concrete():
        if kind < 2 and t > 0:
            return True
        v, s = SEG_ROWS[r]
        return seg_check(v, s, kind, t)


def _ob_msg(r: int, kind: int, t: int, fg: bool) -> bool:
    """
    pre: 0 <= r < NMSG and 0 <= kind < NMK and 0 <= t < NT
    pre: in_part(r * NMK + kind)
    post: _
    """
    r, kind, t = bsearch(r, NMSG), bsearch(kind, NMK), bsearch(t, NT)
    with concrete():
        if kind not in (2, 3) and t > 0:
            return True
        v, mname = MSGS[r]
        return msg_check(v, mname, kind, t, fg)


# ---- V.hist: the verdict depends on (element, reference) only, not on what the process validated before ---------------------
# The same structure is validated against the standard tables and against a profile synthesised from them by one edit
# (harness/c18.make_profile: require / forbid / retype); each order runs in a forked child and the second verdict must be the one
# the same validation gives alone in a fresh child.
from vlib.chglue import forked as _forked      # noqa: E402
from harness import c18 as _P                  # noqa: E402
from harness.corpus import _report as _full_report   # noqa: E402

VH_EDITS = [_P.EDITS.index(e) for e in ('require', 'forbid', 'retype')]
NVH = _P.NS * len(VH_EDITS) * _P.NT


def _vh_case(i):
    si, rest = divmod(i, len(VH_EDITS) * _P.NT)
    e, t = divmod(rest, _P.NT)
    return si, VH_EDITS[e], t


def _vh_verdict(v, m, profile, extra):
    try:
        return _full_report(_P.build(v, m, 0, profile, extra))
    except Exception as ex:      # compared as a value
        return 'raised %s: %s' % (type(ex).__name__, ex)


def vhist_check(i, order, trace=None):
    si, edit, t = _vh_case(i)
    v, m = _P.STRUCTS[si]
    profile, info = _P.make_profile(v, m, edit, t)
    if profile is None:
        return True
    extra = []
    if _P.EDITS[edit] == 'forbid':
        extra = [B.segment_text(v, info, 'required')]
    runs = [None, profile] if order == 0 else [profile, None]
    alone = _forked(lambda: _vh_verdict(v, m, runs[1], extra))
    after = _forked(lambda: (_vh_verdict(v, m, runs[0], extra), _vh_verdict(v, m, runs[1], extra))[1])
    if trace is not None:
        names = ['the standard tables' if r is None else 'the profile (%s %r)' % (_P.EDITS[edit], info) for r in runs]
        trace.append('%s %s validated against %s after a validation against %s in one process\n  verdict after %r\n  verdict alone %r' % (
            v, m, names[1], names[0], after[:2] if isinstance(after, tuple) else after, alone[:2] if isinstance(alone, tuple) else alone))
    return after == alone


def _ob_vhist(i: int, order: int) -> bool:
    """
    pre: 0 <= i < NVH and 0 <= order < 2
    pre: in_part(i)
    post: _
    """
    i, order = bsearch(i, NVH), bsearch(order, 2)
    with concrete():
        return vhist_check(i, order)


def explain(call):
    m = re.match(r'(\w+)\((.*)\)$', call, re.S)
    a, kw = eval('(lambda *a, **k: (a, k))(%s)' % m.group(2))
    tr = []
    try:
        if m.group(1) == '_witness_dupnames':
            tr.append('v2.2 ADT_A17 with two PID/PV1 pairs validates: %s' % _witness_dupnames())
        elif m.group(1) == '_ob_vhist':
            v = dict(zip(['i', 'order'], a)); v.update(kw)
            vhist_check(v['i'], v['order'], tr)
        elif m.group(1) == '_ob_seg':
            v = dict(zip(['r', 'kind', 't'], a)); v.update(kw)
            seg_check(SEG_ROWS[v['r']][0], SEG_ROWS[v['r']][1], v['kind'], v['t'], tr)
        else:
            v = dict(zip(['r', 'kind', 't', 'fg'], a)); v.update(kw)
            msg_check(MSGS[v['r']][0], MSGS[v['r']][1], v['kind'], v['t'], v['fg'], tr)
    except Exception as e:
        tr.append('raised %s: %s' % (type(e).__name__, e))
    return '\n'.join(tr)


SPEC = {
    'property': 'C04',
    'files': ['hl7apy/validation.py', 'hl7apy/core.py', 'hl7apy/parser.py'],
    'functions_encoded': ['hl7apy.validation.Validator.validate (all inner checks)', 'hl7apy.core.Element.validate',
                          'hl7apy.parser.parse_segment/parse_message (to build the instances)'],
    'assumptions': ['conforming instances come from harness/builder.py: required (or all) children once, one valid token per base '
                    'datatype (table-compliant ID/IS where the table is known)',
                    'TOLERANT level for construction (validate() always applies the strict rules)',
                    'segment / structure / mutation indices are symbolic and exhausted by CrossHair/z3; each case then runs concretely'],
    'outside': ['structures outside the slice (quick: %d segments, %d message structures; thorough: all segments, more structures); '
                'multi-point mutations; writing the report to a real path (the file-object branch is checked)' % (NSEG, NMSG)],
    'stubs': [],
    'obligations': [
        {'name': 'S.seg', 'fn': '_ob_seg', 'parts': 32, 'cond_timeout': {'quick': 900, 'thorough': 3000}, 'path_timeout': 60,
         'bound': '%d (version, segment) pairs x %r x target t<%d + purity/consistency on each' % (NSEG, SEG_KINDS, NT)},
        {'name': 'V.hist', 'fn': '_ob_vhist', 'parts': 16, 'cond_timeout': 900, 'path_timeout': 60,
         'bound': '%d (structure, profile edit in require/forbid/retype, target) cases x both orders: a validation against the standard '
                  'tables and one against the profile, the second after the first in one forked process, gives the verdict, errors, '
                  'warnings and report it gives alone in a fresh forked process' % NVH},
        {'name': 'M.msg', 'fn': '_ob_msg', 'parts': 24, 'cond_timeout': {'quick': 900, 'thorough': 3000}, 'path_timeout': 60,
         'bound': '%d message structures x %r x target t<%d x find_groups + purity/consistency on each' % (NMSG, MSG_KINDS, NT)},
    ],
}
