"""C05 - STRICT accepts a subset of TOLERANT and enforces what validate() checks (E1).

T.text   a segment skeleton with one leaf chosen (symbolic index) from a catalogue of valid and invalid literals, placed at a
         symbolically chosen typed position: if STRICT parsing accepts the text, TOLERANT does too, with the same encoding and
         the same validation report, and the STRICT element's report holds nothing but "Missing required child"
H.hist   the C09 history driver run under both levels: if STRICT accepts every step, TOLERANT does too with equal encodings
         after every step, and after every accepted step the STRICT element's report holds nothing but "Missing required child"
"""
import re

from vlib.chglue import PART_K, PART_N, TIER, THOROUGH, KNOWN_OFF, in_part, reset_defaults, concrete, known_open
from harness.c02 import bsearch
from harness import hist as H
from hl7apy.parser import parse_segment, parse_message
from hl7apy.core import Segment

V = '2.5'
# (skeleton with {} for the leaf, description)
POSITIONS = [
    ('PID|{}', 'PID-1 SI'), ('PID|||1||S||{}', 'PID-7 TS/DTM'), ('PID|||1||S|||{}', 'PID-8 IS'), ('PID|||1||{}', 'PID-5 XPN'),
    ('PID|||{}||S', 'PID-3 CX'), ('IN1|1|A|B|||||||||{}', 'IN1-12 DT'), ('OBX|1|NM|A||{}||||||F', 'OBX-5 varies (NM)'),
    ('OBX|1|{}|A||1||||||F', 'OBX-2 ID'), ('NTE|1||{}', 'NTE-3 FT'), ('EVN||{}', 'EVN-2 TS'), ('PID|||1||S^{}', 'XPN-2 ST'),
    ('PID|||1^^^^^^{}||S', 'CX-7 DT'), ('AL1|{}|DA|X', 'AL1-1 SI'), ('OBX|1|TM|A||{}||||||F', 'OBX-5 varies (TM)'),
    ('PID|||1||S|||||||||||||||||||||{}', 'PID-30 ID'), ('NK1|1|N|||||||||||||||||||||||||||||||||||{}', 'NK1-37 ST'),
]
LITERALS = ['', '1', '0001', '12345', '-1', '1.5', 'abc', '20200101', '2020', '202013', '20200230', '20200229', '1200', '2500',
            '120000.1234+0100', '12+1500', '20200101120000.12345', 'x' * 250, 'a^b', 'a&b', 'a~b', ' 1', '1 ', '+5', '1_0', 'NaN',
            '1E3', 'M', 'Y', '\\F\\', 'a\\b', '19000101000000+1400', '99', '0', '00', '1.', '.5', 'A^B^C^D^E^F^G^H^I^J^K^L^M^N^O^P^Q^R^S^T^U^V^W^X']
NP, NLIT = len(POSITIONS), len(LITERALS)


def _report(el):
    r = el.validate(return_errors=True)
    return [str(e) for e in r.errors], [str(w) for w in r.warnings]


def text_check(pi, li, trace=None):
    reset_defaults()
    text = POSITIONS[pi][0].format(LITERALS[li])
    try:
        s = parse_segment(text, version=V, validation_level=1)
    except Exception as e:
        if trace is not None:
            trace.append('STRICT refuses %r (%s): nothing to compare' % (text, type(e).__name__))
        return True
    try:
        t = parse_segment(text, version=V, validation_level=2)
    except Exception as e:
        if trace is not None:
            trace.append('STRICT accepts %r but TOLERANT raises %s: %s' % (text, type(e).__name__, e))
        return False
    es, et = s.to_er7(), t.to_er7()
    rs, rt = _report(s), _report(t)
    only_missing = all(e.startswith('Missing required child') for e in rs[0])
    if trace is not None:
        trace.append('%s, leaf %r: text %r\n  STRICT   -> %r report %r\n  TOLERANT -> %r report %r' % (POSITIONS[pi][1], LITERALS[li], text, es, rs, et, rt))
    return es == et and rs == rt and only_missing


def hist_check(target, init, acts, trace=None):
    """run the same history under STRICT and TOLERANT"""
    reset_defaults()
    try:
        es, _ = H.make(target, init, 1)
    except Exception:
        return True
    et, _ = H.make(target, init, 2)
    strict_first = known_open('C05-strict-structure-order') and target == 'msg'
    for step, act in enumerate(acts, 1):
        try:
            H.apply_real(target, es, act, step, 1)
        except Exception as e:
            if trace is not None:
                trace.append('%d. %s refused under STRICT (%s): nothing further to compare' % (step, H.describe(target, act, step), type(e).__name__))
            return True
        try:
            H.apply_real(target, et, act, step, 2)
        except Exception as e:
            if trace is not None:
                trace.append('%d. %s accepted under STRICT but TOLERANT raises %s: %s' % (step, H.describe(target, act, step), type(e).__name__, e))
            return False
        a, b = es.to_er7(), et.to_er7()
        errs = _report(es)[0]
        only_missing = all(e.startswith('Missing required child') for e in errs)
        if trace is not None:
            trace.append('%d. %s\n   STRICT %r\n   TOLERANT %r\n   STRICT report %r' % (step, H.describe(target, act, step), a, b, errs))
        if not only_missing:
            return False
        if a != b:
            if strict_first and sorted(a.split('\r')) == sorted(b.split('\r')):
                continue      # recorded finding: STRICT encodes groups in structure order, TOLERANT in insertion order
            return False
    return True


SEG_ACTS = H.actions('seg', H.FULL_OPS)
MSG_ACTS = H.actions('msg', H.FULL_OPS)
FLD_ACTS = H.actions('fld', H.FULL_OPS)
NSEG, NMSG, NFLD = len(SEG_ACTS), len(MSG_ACTS), len(FLD_ACTS)
TABLE = {'_ob_seg2': ('seg', SEG_ACTS, 3), '_ob_msg2': ('msg', MSG_ACTS, 2), '_ob_fld2': ('fld', FLD_ACTS, 2)}


def _ob_text(pi: int, li: int) -> bool:
    """
    pre: 0 <= pi < NP and 0 <= li < NLIT
    pre: in_part(li)
    post: _
    """
    pi, li = bsearch(pi, NP), bsearch(li, NLIT)
    with concrete():
        return text_check(pi, li)


def _ob_seg2(init: int, a1: int, a2: int) -> bool:
    """
    pre: 0 <= init < 3 and 0 <= a1 < NSEG and 0 <= a2 < NSEG
    pre: in_part(a1)
    post: _
    """
    init, a1, a2 = bsearch(init, 3), bsearch(a1, NSEG), bsearch(a2, NSEG)
    with concrete():
        return hist_check('seg', init, [SEG_ACTS[a1], SEG_ACTS[a2]])


def _ob_msg2(init: int, a1: int, a2: int) -> bool:
    """
    pre: 0 <= init < 2 and 0 <= a1 < NMSG and 0 <= a2 < NMSG
    pre: in_part(a1)
    post: _
    """
    init, a1, a2 = bsearch(init, 2), bsearch(a1, NMSG), bsearch(a2, NMSG)
    with concrete():
        return hist_check('msg', init, [MSG_ACTS[a1], MSG_ACTS[a2]])


def _ob_fld2(init: int, a1: int, a2: int) -> bool:
    """
    pre: 0 <= init < 2 and 0 <= a1 < NFLD and 0 <= a2 < NFLD
    pre: in_part(a1)
    post: _
    """
    init, a1, a2 = bsearch(init, 2), bsearch(a1, NFLD), bsearch(a2, NFLD)
    with concrete():
        return hist_check('fld', init, [FLD_ACTS[a1], FLD_ACTS[a2]])


def explain(call):
    m = re.match(r'(\w+)\((.*)\)$', call, re.S)
    a, kw = eval('(lambda *a, **k: (a, k))(%s)' % m.group(2))
    tr = []
    if m.group(1) == '_ob_text':
        v = dict(zip(['pi', 'li'], a)); v.update(kw)
        text_check(v['pi'], v['li'], tr)
    else:
        target, acts, _ = TABLE[m.group(1)]
        v = dict(zip(['init', 'a1', 'a2'], a)); v.update(kw)
        tr.append('target %s init %d' % (target, v['init']))
        hist_check(target, v['init'], [acts[v['a1']], acts[v['a2']]], tr)
    return '\n'.join(tr)


SPEC = {
    'property': 'C05',
    'files': ['hl7apy/core.py', 'hl7apy/validation.py', 'hl7apy/factories.py', 'hl7apy/base_datatypes.py', 'hl7apy/parser.py', 'hl7apy/utils.py'],
    'functions_encoded': ['hl7apy.parser.parse_segment and below, under both levels', 'hl7apy.factories.datatype_factory + factories',
                          'hl7apy.core.ElementList._can_add_child, *._is_valid_child, *.find_child_reference, _set_datatype',
                          'hl7apy.validation.Validator.validate'],
    'assumptions': ['HL7 v2.5', 'leaf literals: a catalogue of %d valid and invalid literals (symbolic index) at %d typed positions '
                    '(symbolic index); the deep lexical side of the date/time/numeric datatypes is C13' % (NLIT, NP),
                    'history alphabets as in C09 (harness/hist.py)'],
    'outside': ['literals / positions outside the catalogue; histories longer than 2; other versions'],
    'stubs': [],
    'obligations': [
        {'name': 'T.text', 'fn': '_ob_text', 'parts': 16, 'cond_timeout': 900, 'path_timeout': 60,
         'bound': '%d typed positions x %d literals' % (NP, NLIT)},
        {'name': 'H.seg', 'fn': '_ob_seg2', 'parts': 16, 'cond_timeout': 900, 'path_timeout': 60,
         'bound': 'Segment PID: 3 initial states x every history of length <=2 over %d actions, STRICT vs TOLERANT' % NSEG},
        {'name': 'H.msg', 'fn': '_ob_msg2', 'parts': 16, 'cond_timeout': 900, 'path_timeout': 60,
         'bound': 'Message ADT_A01: 2 initial states x every history of length <=2 over %d actions, STRICT vs TOLERANT' % NMSG},
        {'name': 'H.fld', 'fn': '_ob_fld2', 'parts': 16, 'cond_timeout': 900, 'path_timeout': 60,
         'bound': 'Field PID_5: 2 initial states x every history of length <=2 over %d actions, STRICT vs TOLERANT' % NFLD},
    ],
}
