"""C05 - STRICT accepts a subset of TOLERANT and enforces what validate() checks (E1).

T.text   a segment skeleton with one leaf chosen (symbolic index) from a catalogue of valid and invalid literals, placed at a
         symbolically chosen typed position: if STRICT parsing accepts the text, TOLERANT does too, with the same encoding and
         the same validation report, and the STRICT element's report holds nothing but "Missing required child"
H.hist   the C09 history driver run under both levels: if STRICT accepts every step, TOLERANT does too with equal encodings
         after every step, and after every accepted step the STRICT element's report holds nothing but "Missing required child"
"""
import re

from vlib.chglue import PART_K, PART_N, TIER, THOROUGH, KNOWN_OFF, in_part, reset_defaults, concrete, known_open
from harness.c02 import bsearch
from harness import hist as H
from hl7apy.parser import parse_segment, parse_message
from hl7apy.core import Segment

V = '2.5'
# (skeleton with {} for the leaf, description)
POSITIONS = [
    ('PID|{}', 'PID-1 SI'), ('PID|||1||S||{}', 'PID-7 TS/DTM'), ('PID|||1||S|||{}', 'PID-8 IS'), ('PID|||1||{}', 'PID-5 XPN'),
    ('PID|||{}||S', 'PID-3 CX'), ('IN1|1|A|B|||||||||{}', 'IN1-12 DT'), ('OBX|1|NM|A||{}||||||F', 'OBX-5 varies (NM)'),
    ('OBX|1|{}|A||1||||||F', 'OBX-2 ID'), ('NTE|1||{}', 'NTE-3 FT'), ('EVN||{}', 'EVN-2 TS'), ('PID|||1||S^{}', 'XPN-2 ST'),
    ('PID|||1^^^^^^{}||S', 'CX-7 DT'), ('AL1|{}|DA|X', 'AL1-1 SI'), ('OBX|1|TM|A||{}||||||F', 'OBX-5 varies (TM)'),
    ('PID|||1||S|||||||||||||||||||||{}', 'PID-30 ID'), ('NK1|1|N|||||||||||||||||||||||||||||||||||{}', 'NK1-37 ST'),
    ('PID|||1||S||||||||{}', 'PID-13 XTN/TN (v2.3)', '2.3'), ('NK1|1|N|||{}', 'NK1-5 TN (v2.2)', '2.2'),
    ('PID|||1||S||||||||^^^^{}', 'XTN-5 SNM (v2.7)', '2.7'),
]
LITERALS = ['1' * 250, '555-' + '1' * 250, '', '1', '0001', '12345', '-1', '1.5', 'abc', '20200101', '2020', '202013', '20200230', '20200229', '1200', '2500',
            '120000.1234+0100', '12+1500', '20200101120000.12345', 'x' * 250, 'a^b', 'a&b', 'a~b', ' 1', '1 ', '+5', '1_0', 'NaN',
            '1E3', '-1234', '-1234567890123456', '123456789012345.6', '0.0000000000000001', 'M', 'Y', '\\F\\', 'a\\b', '19000101000000+1400', '99', '0', '00', '1.', '.5', 'A^B^C^D^E^F^G^H^I^J^K^L^M^N^O^P^Q^R^S^T^U^V^W^X']
NP, NLIT = len(POSITIONS), len(LITERALS)


def _report(el):
    r = el.validate(return_errors=True)
    return [str(e) for e in r.errors], [str(w) for w in r.warnings]


def _overlong_leaves(el):
    """leaves of a STRICT-accepted element whose datatype object holds a value longer than its own max_length"""
    out = []
    if el.classname == 'SubComponent':
        v = el.value
        ml = getattr(v, 'max_length', None)
        if v is not None and ml is not None:
            import numbers
            # numerics: the text that is emitted; textual values: the value itself (escaping does not count)
            text = v.to_er7() if isinstance(v.value, numbers.Number) else '{0}'.format(v.value if v.value is not None else '')
            if len(text) > ml:
                out.append('%s(%d chars, max %d)' % (type(v).__name__, len(text), ml))
        return out
    for c in el.children:
        out += _overlong_leaves(c)
    return out


def text_check(pi, li, trace=None):
    reset_defaults()
    text = POSITIONS[pi][0].format(LITERALS[li])
    V = POSITIONS[pi][2] if len(POSITIONS[pi]) > 2 else '2.5'
    try:
        s = parse_segment(text, version=V, validation_level=1)
    except Exception as e:
        if trace is not None:
            trace.append('STRICT refuses %r (%s): nothing to compare' % (text, type(e).__name__))
        return True
    try:
        t = parse_segment(text, version=V, validation_level=2)
    except Exception as e:
        if trace is not None:
            trace.append('STRICT accepts %r but TOLERANT raises %s: %s' % (text, type(e).__name__, e))
        return False
    es, et = s.to_er7(), t.to_er7()
    rs, rt = _report(s), _report(t)
    only_missing = all(e.startswith('Missing required child') for e in rs[0])
    overlong = _overlong_leaves(s)
    if trace is not None:
        trace.append('%s, leaf %r: text %r\n  STRICT   -> %r report %r\n  TOLERANT -> %r report %r\n  over-long leaves kept by STRICT: %r' % (
            POSITIONS[pi][1], LITERALS[li][:40], text[:120], es[:120], rs, et[:120], rt, overlong))
    return es == et and rs == rt and only_missing and not overlong


def hist_check(target, init, acts, trace=None):
    """run the same history under STRICT and TOLERANT"""
    reset_defaults()
    try:
        es, _ = H.make(target, init, 1)
    except Exception:
        return True
    et, _ = H.make(target, init, 2)
    strict_first = known_open('C05-strict-structure-order') and target == 'msg'
    for step, act in enumerate(acts, 1):
        try:
            H.apply_real(target, es, act, step, 1)
        except Exception as e:
            if trace is not None:
                trace.append('%d. %s refused under STRICT (%s): nothing further to compare' % (step, H.describe(target, act, step), type(e).__name__))
            return True
        try:
            H.apply_real(target, et, act, step, 2)
        except Exception as e:
            if trace is not None:
                trace.append('%d. %s accepted under STRICT but TOLERANT raises %s: %s' % (step, H.describe(target, act, step), type(e).__name__, e))
            return False
        a, b = es.to_er7(), et.to_er7()
        errs = _report(es)[0]
        only_missing = all(e.startswith('Missing required child') for e in errs)
        if trace is not None:
            trace.append('%d. %s\n   STRICT %r\n   TOLERANT %r\n   STRICT report %r' % (step, H.describe(target, act, step), a, b, errs))
        if not only_missing:
            return False
        if a != b:
            if strict_first and sorted(a.split('\r')) == sorted(b.split('\r')):
                continue      # recorded finding: STRICT encodes groups in structure order, TOLERANT in insertion order
            return False
    return True


# ---- A.api: things one can try under STRICT through the API; each must be refused, or leave an element the validator accepts
#      (missing required children aside) with no over-long leaf.  (id, recorded finding or None, function)
def _api_items(S=1):
    from hl7apy.core import Message, Segment, Field, Component, SubComponent
    from hl7apy.base_datatypes import ST, SI, NM

    def obx5_setter():
        seg = Segment('OBX', version=V, validation_level=S)
        seg.obx_1 = '1'
        seg.obx_2 = 'ST'
        seg.obx_3 = 'A'
        seg.obx_11 = 'F'
        seg.obx_5 = 'x'
        seg.obx_5[0].datatype = 'NM'
        return seg

    def field_override():
        return Field('PID_5', datatype='CE', version=V, validation_level=S)

    def field_setter_override():
        f = Field('PID_8', version=V, validation_level=S)
        f.datatype = 'ST'
        return f

    def sub_wrong_class():
        sc = SubComponent(datatype='NM', version=V, validation_level=S)
        sc.value = ST('abc')
        c = Component(datatype='NM', version=V, validation_level=S)
        c.add(sc)
        f = Field('OBX_5', version=V, validation_level=S)   # varies
        return sc

    def field_overlong_instance():
        f = Field('PID_1', version=V, validation_level=S)
        f.value = SI(12345, validation_level=2)
        return f

    def qpd_extra():
        seg = Segment('QPD', version=V, validation_level=S)
        seg.qpd_1 = 'A'
        seg.qpd_8 = 'abc'
        return seg

    def qpd_extra_two_digits():
        seg = Segment('QPD', version=V, validation_level=S)
        seg.qpd_1 = 'A'
        seg.qpd_10 = 'abc'
        seg.qpd_21 = 'def'
        return seg

    def field_varies_override():
        f = Field('PID_5', datatype='varies', version=V, validation_level=S)
        if f.datatype != 'XPN':
            f.__dict__['datatype_overridden'] = True
        return f

    def dup_single():
        seg = Segment('PID', version=V, validation_level=S)
        seg.pid_3 = '1'
        seg.pid_5 = 'S'
        seg.pid_8 = 'M'
        seg.add(Field('PID_8', version=V, validation_level=S))
        return seg

    def foreign_field():
        seg = Segment('PID', version=V, validation_level=S)
        seg.add(Field('EVN_1', version=V, validation_level=S))
        return seg

    def unknown_field():
        seg = Segment('PID', version=V, validation_level=S)
        seg.add(Field(version=V, validation_level=S))
        return seg

    def invalid_value():
        seg = Segment('PID', version=V, validation_level=S)
        seg.pid_7 = 'notadate'
        return seg

    def varies_field_setter():
        seg = Segment('OBX', version=V, validation_level=S)
        seg.obx_1 = '1'
        seg.obx_2 = 'NM'
        seg.obx_3 = 'A'
        seg.obx_11 = 'F'
        f = Field('OBX_5', version=V, validation_level=S)       # official datatype: varies
        f.datatype = 'NM'
        f.value = '12'
        seg.add(f)
        return seg

    def varies_component_setter():
        f = Field('QPD_3', version=V, validation_level=S)        # official datatype: varies
        official = f.datatype
        f.datatype = 'CE'
        if f.datatype != official:
            f.__dict__['datatype_overridden'] = True
        return f

    def z_segment():
        m = Message('ADT_A01', version=V, validation_level=S)
        m.msh.msh_7 = '20200101'
        m.pid.pid_5 = 'S'
        z = m.add_segment('ZIN')      # added last: insertion order and structure order agree (cf. C05-strict-structure-order)
        z.zin_1 = 'x'
        return m

    def z_segment_parsed():
        from hl7apy.parser import parse_message
        return parse_message('MSH|^~\\&|A|B|C|D|20200101||ADT^A01^ADT_A01|1|P|%s\rEVN||20200101\rPID|||1||S\rPV1||I\rZXX|9' % V,
                             validation_level=S)

    def nm_instance_ok():
        f = Field('OBX_1', version=V, validation_level=S)
        f.value = SI(1, validation_level=S)
        return f

    return [('obx5-datatype-setter', None, obx5_setter), ('field-ctor-datatype-override', None, field_override),
            ('field-setter-datatype-override', None, field_setter_override),
            ('subcomponent-wrong-datatype-object', 'C05-datatype-object-unchecked', sub_wrong_class),
            ('overlong-datatype-object-built-tolerant', 'C05-datatype-object-unchecked', field_overlong_instance),
            ('qpd-extra-field', 'C05-open-ended-extra-field', qpd_extra), ('qpd-extra-field-two-digits', None, qpd_extra_two_digits), ('field-ctor-varies-override', 'C05-varies-override', field_varies_override),
            ('duplicate-single-field', None, dup_single), ('foreign-field', None, foreign_field), ('unknown-field', None, unknown_field),
            ('invalid-value', None, invalid_value), ('varies-field-datatype-setter', None, varies_field_setter),
            ('z-segment-added', None, z_segment), ('z-segment-parsed', None, z_segment_parsed),
            ('varies-field-datatype-setter-standalone', None, varies_component_setter), ('valid-datatype-object', None, nm_instance_ok)]


API = _api_items(1)
API_TOLERANT = _api_items(2)       # the same attempts under TOLERANT: what STRICT accepts, TOLERANT accepts with the same outcome
NAPI = len(API)


def api_check(i, trace=None):
    reset_defaults()
    name, finding, fn = API[i]
    if finding and known_open(finding):
        return True
    try:
        el = fn()
    except Exception as e:
        if trace is not None:
            trace.append('%s: refused under STRICT (%s: %s)' % (name, type(e).__name__, e))
        return True
    root = el
    try:
        errs = _report(root)[0]
    except Exception as e:
        errs = ['validate() raised %s: %s' % (type(e).__name__, e)]
    bad = [e for e in errs if not e.startswith('Missing required child')]
    if el.__dict__.get('datatype_overridden'):
        bad.append('the official datatype has been overridden: %r' % (el.datatype,))
    over = _overlong_leaves(root)
    # STRICT accepted it: TOLERANT accepts it too, with the same encoding and the same report
    same = []
    if not finding:
        try:
            el_t = API_TOLERANT[i][2]()
        except Exception as e:
            same.append('TOLERANT refuses it (%s: %s)' % (type(e).__name__, e))
        else:
            if el_t.to_er7() != root.to_er7():
                same.append('TOLERANT encodes %r' % (el_t.to_er7(),))
            try:
                if _report(el_t) != _report(root):
                    same.append('TOLERANT report %r differs from STRICT report %r' % (_report(el_t), _report(root)))
            except Exception:
                pass
    if trace is not None:
        trace.append('%s: accepted under STRICT -> %r ; validator errors other than missing children: %r ; over-long leaves: %r ; '
                     'STRICT vs TOLERANT: %r' % (name, root.to_er7(), bad, over, same))
    return not bad and not over and not same


def _ob_api(i: int) -> bool:
    """
    pre: 0 <= i < NAPI
    post: _
    """
    i = bsearch(i, NAPI)
    with concrete():
        return api_check(i)


def _witness(fid):
    return all(api_check(i) for i, a in enumerate(API) if a[1] == fid)


def _witness_dtobj():
    return _witness('C05-datatype-object-unchecked')


def _witness_openended():
    return _witness('C05-open-ended-extra-field')


def _witness_varies():
    return _witness('C05-varies-override')


SEG_ACTS = H.actions('seg', H.FULL_OPS)
MSG_ACTS = H.actions('msg', H.FULL_OPS)
FLD_ACTS = H.actions('fld', H.FULL_OPS)
NSEG, NMSG, NFLD = len(SEG_ACTS), len(MSG_ACTS), len(FLD_ACTS)
TABLE = {'_ob_seg2': ('seg', SEG_ACTS, 3), '_ob_msg2': ('msg', MSG_ACTS, 2), '_ob_fld2': ('fld', FLD_ACTS, 2)}


def _ob_text(pi: int, li: int) -> bool:
    """
    pre: 0 <= pi < NP and 0 <= li < NLIT
    pre: in_part(li)
    post: _
    """
    pi, li = bsearch(pi, NP), bsearch(li, NLIT)
    with concrete():
        return text_check(pi, li)


def _ob_seg2(init: int, a1: int, a2: int) -> bool:
    """
    pre: 0 <= init < 3 and 0 <= a1 < NSEG and 0 <= a2 < NSEG
    pre: in_part(a1)
    post: _
    """
    init, a1, a2 = bsearch(init, 3), bsearch(a1, NSEG), bsearch(a2, NSEG)
    with concrete():
        return hist_check('seg', init, [SEG_ACTS[a1], SEG_ACTS[a2]])


def _ob_msg2(init: int, a1: int, a2: int) -> bool:
    """
    pre: 0 <= init < 2 and 0 <= a1 < NMSG and 0 <= a2 < NMSG
    pre: in_part(a1)
    post: _
    """
    init, a1, a2 = bsearch(init, 2), bsearch(a1, NMSG), bsearch(a2, NMSG)
    with concrete():
        return hist_check('msg', init, [MSG_ACTS[a1], MSG_ACTS[a2]])


def _ob_fld2(init: int, a1: int, a2: int) -> bool:
    """
    pre: 0 <= init < 2 and 0 <= a1 < NFLD and 0 <= a2 < NFLD
    pre: in_part(a1)
    post: _
    """
    init, a1, a2 = bsearch(init, 2), bsearch(a1, NFLD), bsearch(a2, NFLD)
    with concrete():
        return hist_check('fld', init, [FLD_ACTS[a1], FLD_ACTS[a2]])


CORE_SEG = H.actions('seg', H.CORE_OPS + [H.SETELEM, H.SETDTOK, H.DELCH])
CORE_FLD = H.actions('fld', H.CORE_OPS + [H.SETELEM, H.SETDTOK, H.DELCH])
NCS, NCF = len(CORE_SEG), len(CORE_FLD)
TABLE.update({'_ob_seg3': ('seg', CORE_SEG, 3), '_ob_fld3': ('fld', CORE_FLD, 2)})


def _ob_seg3(init: int, a1: int, a2: int, a3: int) -> bool:
    """
    pre: 0 <= init < 3 and 1 <= a1 < NCS and 1 <= a2 < NCS and 1 <= a3 < NCS
    pre: in_part(a1 * NCS + a2)
    post: _
    """
    init, a1, a2, a3 = bsearch(init, 3), bsearch(a1, NCS), bsearch(a2, NCS), bsearch(a3, NCS)
    with concrete():
        return hist_check('seg', init, [CORE_SEG[a1], CORE_SEG[a2], CORE_SEG[a3]])


def _ob_fld3(init: int, a1: int, a2: int, a3: int) -> bool:
    """
    pre: 0 <= init < 2 and 1 <= a1 < NCF and 1 <= a2 < NCF and 1 <= a3 < NCF
    pre: in_part(a1 * NCF + a2)
    post: _
    """
    init, a1, a2, a3 = bsearch(init, 2), bsearch(a1, NCF), bsearch(a2, NCF), bsearch(a3, NCF)
    with concrete():
        return hist_check('fld', init, [CORE_FLD[a1], CORE_FLD[a2], CORE_FLD[a3]])


def explain(call):
    m = re.match(r'(\w+)\((.*)\)$', call, re.S)
    a, kw = eval('(lambda *a, **k: (a, k))(%s)' % m.group(2))
    tr = []
    if m.group(1) == '_ob_api':
        api_check(a[0] if a else kw['i'], tr)
        return '\n'.join(tr)
    if m.group(1).startswith('_witness'):
        for i in range(NAPI):
            if API[i][1]:
                try:
                    api_check(i, tr)
                except Exception as e:
                    tr.append('%s raised %r' % (API[i][0], e))
        return '\n'.join(tr)
    if m.group(1) == '_ob_text':
        v = dict(zip(['pi', 'li'], a)); v.update(kw)
        text_check(v['pi'], v['li'], tr)
    else:
        target, acts, _ = TABLE[m.group(1)]
        v = dict(zip(['init', 'a1', 'a2'], a)); v.update(kw)
        tr.append('target %s init %d' % (target, v['init']))
        hist_check(target, v['init'], [acts[v['a1']], acts[v['a2']]], tr)
    return '\n'.join(tr)


SPEC = {
    'property': 'C05',
    'files': ['hl7apy/core.py', 'hl7apy/validation.py', 'hl7apy/factories.py', 'hl7apy/base_datatypes.py', 'hl7apy/parser.py', 'hl7apy/utils.py'],
    'functions_encoded': ['hl7apy.parser.parse_segment and below, under both levels', 'hl7apy.factories.datatype_factory + factories',
                          'hl7apy.core.ElementList._can_add_child, *._is_valid_child, *.find_child_reference, _set_datatype',
                          'hl7apy.validation.Validator.validate'],
    'assumptions': ['HL7 v2.5', 'leaf literals: a catalogue of %d valid and invalid literals (symbolic index) at %d typed positions '
                    '(symbolic index); the deep lexical side of the date/time/numeric datatypes is C13' % (NLIT, NP),
                    'history alphabets as in C09 (harness/hist.py)'],
    'outside': ['literals / positions outside the catalogue; histories longer than 2; other versions'],
    'stubs': [],
    'obligations': [
        {'name': 'T.text', 'fn': '_ob_text', 'parts': 16, 'cond_timeout': 900, 'path_timeout': 60,
         'bound': '%d typed positions x %d literals' % (NP, NLIT)},
        {'name': 'A.api', 'fn': '_ob_api', 'parts': 1, 'cond_timeout': 300, 'path_timeout': 60,
         'bound': '%d API attempts under STRICT (datatype overrides by constructor and by setter, datatype objects of the wrong class / '
                  'built under TOLERANT, open-ended extra field, duplicates, foreign / unknown child, invalid value): refused, or the '
                  'element draws no validator error other than missing children and holds no over-long leaf' % NAPI},
        {'name': 'H.seg', 'fn': '_ob_seg2', 'parts': 16, 'cond_timeout': 900, 'path_timeout': 60,
         'bound': 'Segment PID: 3 initial states x every history of length <=2 over %d actions, STRICT vs TOLERANT' % NSEG},
        {'name': 'H.msg', 'fn': '_ob_msg2', 'parts': 16, 'cond_timeout': 900, 'path_timeout': 60,
         'bound': 'Message ADT_A01: 2 initial states x every history of length <=2 over %d actions, STRICT vs TOLERANT' % NMSG},
        {'name': 'H.fld', 'fn': '_ob_fld2', 'parts': 16, 'cond_timeout': 900, 'path_timeout': 60,
         'bound': 'Field PID_5: 2 initial states x every history of length <=2 over %d actions, STRICT vs TOLERANT' % NFLD},
    ] + ([
        {'name': 'H.seg.len3', 'fn': '_ob_seg3', 'parts': 48, 'cond_timeout': 3000, 'path_timeout': 60,
         'bound': 'Segment PID: 3 initial states x every history of length 3 over %d core actions, STRICT vs TOLERANT' % (NCS - 1)},
        {'name': 'H.fld.len3', 'fn': '_ob_fld3', 'parts': 48, 'cond_timeout': 3000, 'path_timeout': 60,
         'bound': 'Field PID_5: 2 initial states x every history of length 3 over %d core actions, STRICT vs TOLERANT' % (NCF - 1)},
    ] if THOROUGH else []),
}
