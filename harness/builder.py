"""Reference builder: conforming ER7 text for segments and messages, derived from the live tables read as DATA
(names, datatypes, cardinalities) - no hl7apy logic is used."""
from harness import tables as T

LEAF = {'ST': 'x', 'TX': 'x', 'FT': 'x', 'ID': 'x', 'IS': 'x', 'NM': '1', 'SI': '1', 'DT': '20200101', 'DTM': '20200101',
        'TM': '1200', 'GTS': 'x', 'SNM': '1', 'TN': '123-4567', 'CM': 'x', 'WD': '', 'varies': 'x', None: 'x'}


def leaf_token(v, datatype, table=None):
    if datatype in ('ID', 'IS') and table:
        tab = getattr(T.LIBS[v], 'TABLES', {}).get(table)
        if tab and len(tab) > 1 and tab[1]:
            vals = sorted(x for x in tab[1] if x and all(ch not in x for ch in '|^~\\&#'))
            if vals:
                return vals[0]
    return LEAF.get(datatype, 'x')


def component_text(v, ref, sep_children='&'):
    """text of one component (ref = DATATYPES row): a leaf token, or its required subcomponents"""
    if ref[0] == 'leaf':
        return leaf_token(v, ref[2], ref[4] if len(ref) > 4 else None)
    return _children_text(v, ref[1], sep_children, lambda r: component_text(v, r, sep_children))


def _children_text(v, children, sep, render):
    parts = []
    required = [k for k, c in enumerate(children) if c[2][0] >= 1 and c[2][1] != 0]
    # nothing required: fill the first child that may occur (max != 0) and has a non-empty token
    wanted = required or [k for k, c in enumerate(children) if c[2][1] != 0 and render(c[1]) != ''][:1]
    for k, c in enumerate(children):
        parts.append(render(c[1]) if k in wanted else '')
    while parts and parts[-1] == '':
        parts.pop()
    return sep.join(parts)


def field_text(v, ref):
    """text of one field repetition (ref = FIELDS row)"""
    if ref[0] == 'leaf':
        return leaf_token(v, ref[2], ref[4] if len(ref) > 4 else None)
    return _children_text(v, ref[1], '^', lambda r: component_text(v, r, '&'))


def segment_text(v, s, which='required', skip=None, dup=None):
    """conforming segment text. which: 'required' (only fields with min>=1) or 'all' (every field once).
    skip: field name to leave out; dup: field name to repeat once more than allowed"""
    ch = T.seg_children(v, s) or []
    if s == 'MSH':
        raise ValueError('use msh_text')
    vals = {}
    for c in ch:
        name, ref, (mn, mx), _ = c
        n = T.child_number(name)
        if name == skip:
            continue
        if mx == 0:
            continue          # withdrawn field: may not occur
        if which == 'all' or mn >= 1:
            t = field_text(v, ref)
            if t == '':
                continue
            reps = max(mn, 1)
            if name == dup:
                reps = (mx if mx > 0 else 1) + 1
            vals[n] = '~'.join([t] * reps)
    if not vals:
        return s
    last = max(vals)
    return '|'.join([s] + [vals.get(k, '') for k in range(1, last + 1)])


def msh_text(v, mname, skip=None):
    ch = T.seg_children(v, 'MSH')
    vals = {}
    parts = mname.split('_')
    for c in ch:
        name, ref, (mn, mx), _ = c
        n = T.child_number(name)
        if n in (1, 2) or name == skip:
            continue
        if mn >= 1:
            if n == 9:
                vals[n] = '%s^%s^%s' % (parts[0], parts[1] if len(parts) > 1 else '', mname) if v >= '2.3.1' else \
                    '%s^%s' % (parts[0], parts[1] if len(parts) > 1 else '')
            elif n == 12:
                vals[n] = v
            elif n == 7:
                vals[n] = '20200101'
            elif n == 11:
                vals[n] = 'P'
            else:
                vals[n] = field_text(v, ref)
    last = max(vals)
    return 'MSH|^~\\&|' + '|'.join(vals.get(k, '') for k in range(3, last + 1))


def message_nodes(ref, which='required', top=True):
    """nodes ('SEG', name) / ('GRP', name, [nodes]) of an instance with the required children only, or all children once"""
    out = []
    # a 'choice' is instantiated by one alternative (the first)
    for (name, cref, (mn, mx), kind) in (ref[1][:1] if ref[0] == 'choice' else ref[1]):
        if top and name == 'MSH':
            continue
        if which == 'required' and mn < 1:
            continue
        if kind == 'SEG':
            out.append(('SEG', name))
        else:
            body = message_nodes(cref, which, False)
            if not body and mn >= 1:
                body = _force_first(cref)     # required group whose members are all optional
            if body:
                out.append(('GRP', name, body))
    return out


def _force_first(ref):
    """content for a required group whose members are all optional: its first member - a group with what THAT group requires"""
    for (name, cref, (mn, mx), kind) in ref[1]:
        if kind == 'SEG':
            return [('SEG', name)]
        inner = message_nodes(cref, 'required', False) or _force_first(cref)
        if inner:
            return [('GRP', name, inner)]
    return []


def structure_names(ref, acc=None):
    acc = [] if acc is None else acc
    for c in ref[1]:
        if c[3] == 'SEG':
            acc.append(c[0])
        else:
            structure_names(c[1], acc)
    return acc


def flatten(nodes):
    out = []
    for n in nodes:
        if n[0] == 'SEG':
            out.append(n[1])
        else:
            out.extend(flatten(n[2]))
    return out


def message_text(v, mname, which='required', seg_which='required'):
    ref = T.LIBS[v].MESSAGES[mname]
    names = flatten(message_nodes(ref, which))
    lines = [msh_text(v, mname)]
    for n in names:
        lines.append(segment_text(v, n, seg_which) if T.seg_children(v, n) is not None and n in T.LIBS[v].SEGMENTS else n)
    return '\r'.join(lines)
