"""C07 - a message's encoding characters govern its entire encoding.

H.info    (E1, characters FULLY symbolic)  get_message_info("MSH"+f+c+r+e+s[+t]+f+rest): returns exactly the characters
          given, or raises InvalidEncodingChars iff two are equal / one is blank / a 5th is given below 2.7 (ParserError when
          the field separator is blank)
H.check   check_encoding_chars on a dict with a symbolically chosen missing key / equal pair
M.roles   (E1, delimiters realised from a finite candidate set K) every injective assignment of the 5 (6) roles to
          characters of K x 4 version classes: Message(..., encoding_chars=ec) -> exact expected text, encoding_chars on the
          message and on every descendant, to_mllp, parse_message round trip
"""
import itertools

from vlib.chglue import PART_K, PART_N, TIER, THOROUGH, in_part, reset_defaults, concrete
from harness.c02 import bsearch
from hl7apy import check_encoding_chars
from hl7apy.core import Message
from hl7apy.parser import get_message_info, parse_message
from hl7apy.exceptions import InvalidEncodingChars, ParserError

ROLES = ['FIELD', 'COMPONENT', 'REPETITION', 'ESCAPE', 'SUBCOMPONENT', 'TRUNCATION']
K = ['|', '^', '~', '\\', '&', '#'] + (['!', '*'] if THOROUGH else [])
VERS = ['2.3', '2.5', '2.7', '2.8.1']
REST = ['A', 'B', '', '', '2020', '', 'ADT', '1', 'P']      # MSH-3 .. MSH-11 ; MSH-12 (version) appended




# ---- H.info ------------------------------------------------------------------------------------------------
def _expect(chars, version):
    f = chars[0]
    seps = chars[1:]
    if f.isspace():
        return 'ParserError'
    if len(seps) == 5 and seps[4] == f:
        seps = seps[:4]                       # MSH-2 of four characters followed by an empty field
    if f in seps[:4]:
        return 'InvalidEncodingChars'         # MSH-2 is cut short by the field separator
    if len(set(seps)) < len(seps):
        return 'InvalidEncodingChars'
    if any(c.isspace() for c in seps):
        return 'InvalidEncodingChars'
    if len(seps) == 5 and version < '2.7':
        return 'InvalidEncodingChars'
    d = {'FIELD': f, 'COMPONENT': seps[0], 'REPETITION': seps[1], 'ESCAPE': seps[2], 'SUBCOMPONENT': seps[3],
         'SEGMENT': '\r', 'GROUP': '\r'}
    if len(seps) == 5:
        d['TRUNCATION'] = seps[4]
    return d


def _info(chars, version):
    f = chars[0]
    text = 'MSH' + ''.join(chars) + f + f.join(REST + [version])
    try:
        ec, _, _ = get_message_info(text)
        return ec
    except InvalidEncodingChars:
        return 'InvalidEncodingChars'
    except ParserError:
        return 'ParserError'


HV = [0, 1, 2, 3] if THOROUGH else [1, 2]      # versions used by the header obligations (below / from 2.7)
NHV = len(HV)
POOLS = ['|^~\\&#', '!*@?$+', '#&\\~^|']      # characters given to the equality classes, in order of first occurrence


def _rgs(n):
    """restricted growth strings of length n = all equality patterns of n positions"""
    out = [[0]]
    for _ in range(n - 1):
        out = [p + [k] for p in out for k in range(max(p) + 2)]
    return out


def _cases(n):
    """(pattern, blank class or -1, pool index): every equality pattern of n characters, with at most one class being the
    blank, spelled with three different pools of punctuation marks"""
    out = []
    for p in _rgs(n):
        for blank in range(-1, max(p) + 1):
            for pool in range(len(POOLS)):
                out.append((p, blank, pool))
    return out


CASES4, CASES5 = _cases(5), _cases(6)
NC4, NC5 = len(CASES4), len(CASES5)


def _chars(case):
    p, blank, pool = case
    return [' ' if k == blank else POOLS[pool][k] for k in p]


def _ob_info4(vi: int, ci: int) -> bool:
    """
    pre: 0 <= vi < NHV and 0 <= ci < NC4
    pre: in_part(ci)
    post: _
    """
    vi, ci = HV[bsearch(vi, NHV)], bsearch(ci, NC4)
    with concrete():
        chars = _chars(CASES4[ci])
        return _info(chars, VERS[vi]) == _expect(chars, VERS[vi])


def _ob_info5(vi: int, ci: int) -> bool:
    """
    pre: 0 <= vi < NHV and 0 <= ci < NC5
    pre: in_part(ci)
    post: _
    """
    vi, ci = HV[bsearch(vi, NHV)], bsearch(ci, NC5)
    with concrete():
        chars = _chars(CASES5[ci])
        return _info(chars, VERS[vi]) == _expect(chars, VERS[vi])


# ---- H.check ----------------------------------------------------------------------------------------------
def _ob_check(missing: int, i: int, j: int, with_trunc: bool) -> bool:
    """
    pre: -1 <= missing < 5 and 0 <= i < 6 and 0 <= j < 6
    post: _
    """
    missing = bsearch(missing + 1, 6) - 1
    i, j = bsearch(i, 6), bsearch(j, 6)
    with concrete():
        base = dict(zip(ROLES[:5], ['|', '^', '~', '\\', '&']))
        if with_trunc:
            base['TRUNCATION'] = '#'
        elif i == 5 or j == 5:
            return True
        d = dict(base)
        if i != j:
            d[ROLES[j]] = d[ROLES[i]]
        if missing >= 0:
            del d[ROLES[missing]]
        bad = missing >= 0 or (i != j and not (missing in (i, j)))
        try:
            check_encoding_chars(d)
            return not bad
        except InvalidEncodingChars:
            return bad


# ---- M.roles ------------------------------------------------------------------------------------------------
PERMS5 = list(itertools.permutations(range(len(K)), 5))
PERMS6 = list(itertools.permutations(range(len(K)), 6))
N5, N6 = len(PERMS5), len(PERMS6)


def _descendants(el):
    yield el
    if el.__class__.__name__ != 'SubComponent':
        for c in el.children:
            for x in _descendants(c):
                yield x


def roles_ok(version, chars, trace=None, trav=False):
    reset_defaults()
    ec = dict(zip(ROLES, chars))
    F, C, R, E, S = chars[:5]
    Tn = chars[5] if len(chars) == 6 else ''
    given = dict(ec)
    m = Message('ADT_A01', version=version, encoding_chars=given)
    m.msh.msh_7 = '2020'
    m.msh.msh_9 = 'ADT' + C + 'A01' + C + 'ADT_A01'
    m.msh.msh_10 = '1'
    m.msh.msh_11 = 'P'
    if not trav:
        pid = 'PID' + F + '1' + F + F + 'X' + C + C + C + 'H' + S + 'I' + F + F + 'S' + C + 'N' + R + 'T'
        m.pid = pid
    else:
        # the same kind of content assigned through navigation: PID and its fields do not exist when the first value is
        # assigned, so the text is parsed by elements that only have a navigation parent
        pid = 'PID' + F + '1' + F + F + 'X' + C + C + C + 'H' + S + 'I' + F + F + 'S' + C + 'N'
        m.pid.pid_3 = 'X' + C + C + C + 'H' + S + 'I'
        m.pid.pid_1 = '1'
        m.pid.pid_5.xpn_2 = 'N'
        m.pid.pid_5.xpn_1 = 'S'
    msh = 'MSH' + F + C + R + E + S + Tn + F * 5 + '2020' + F * 2 + 'ADT' + C + 'A01' + C + 'ADT_A01' + F + '1' + F + 'P' + F + version
    want = msh + '\r' + pid
    got = m.to_er7()
    full = dict(ec, SEGMENT='\r', GROUP='\r')
    checks = [
        ('to_er7', got == want),
        ('encoding_chars', m.encoding_chars == full),
        ('argument untouched', given == ec),
        ('to_mllp', m.to_mllp() == '\x0b' + want + '\r\x1c\r'),
        ('descendants', all(d.encoding_chars == full for d in _descendants(m))),
    ]
    if all(ok for _, ok in checks):
        back = parse_message(got)
        checks += [('parsed.encoding_chars', back.encoding_chars == full), ('parsed.to_er7', back.to_er7() == got),
                   ('parsed.descendants', all(d.encoding_chars == full for d in _descendants(back))),
                   ('parsed.find_groups=False', parse_message(got, find_groups=False).to_er7() == got)]
    if trace is not None:
        trace.append('version %s encoding chars %r\n  to_er7  %r\n  expected %r\n  checks %r' % (version, ec, got, want, checks))
    return all(ok for _, ok in checks)


def _ob_roles5(vi: int, p: int, trav: bool) -> bool:
    """
    pre: 0 <= vi < 4 and 0 <= p < N5
    pre: in_part(p)
    post: _
    """
    vi, p = bsearch(vi, 4), bsearch(p, N5)
    with concrete():
        return roles_ok(VERS[vi], [K[x] for x in PERMS5[p]], None, trav)


def _ob_roles6(vi: int, p: int, trav: bool) -> bool:
    """
    pre: 2 <= vi < 4 and 0 <= p < N6
    pre: in_part(p)
    post: _
    """
    vi, p = bsearch(vi - 2, 2) + 2, bsearch(p, N6)
    with concrete():
        return roles_ok(VERS[vi], [K[x] for x in PERMS6[p]], None, trav)


def _ob_trunc_below27(vi: int, p: int) -> bool:
    """
    pre: 0 <= vi < 2 and 0 <= p < N6
    pre: in_part(p)
    post: _
    """
    vi, p = bsearch(vi, 2), bsearch(p, N6)
    with concrete():
        # below 2.7 a supplied truncation character is never emitted
        reset_defaults()
        chars = [K[x] for x in PERMS6[p]]
        given = dict(zip(ROLES, chars))
        m = Message('ADT_A01', version=VERS[vi], encoding_chars=given)
        m.msh.msh_7 = '2020'
        head = 'MSH' + ''.join(chars[:5]) + chars[0]
        ok = m.to_er7().startswith(head) and 'TRUNCATION' not in m.encoding_chars
        # the caller's dictionary is an argument, not something to edit: it still holds what was supplied, and a 2.7 message
        # created with the very same object emits the truncation character
        ok = ok and given == dict(zip(ROLES, chars))
        m27 = Message('ADT_A01', version='2.7', encoding_chars=given)
        return ok and m27.to_er7().startswith('MSH' + ''.join(chars[:5]) + chars[5] + chars[0]) and \
            m27.encoding_chars.get('TRUNCATION') == chars[5]


def explain(call):
    import re
    m = re.match(r'(\w+)\((.*)\)$', call, re.S)
    a, kw = eval('(lambda *a, **k: (a, k))(%s)' % m.group(2))
    name = m.group(1)
    tr = []
    if name in ('_ob_info4', '_ob_info5'):
        v = dict(zip(['vi', 'ci'], a)); v.update(kw)
        chars = _chars((CASES4 if name == '_ob_info4' else CASES5)[v['ci']])
        ver = VERS[HV[v['vi']]]
        tr.append('get_message_info(MSH + %r + ...) version %s -> %r ; expected %r' % (''.join(chars), ver, _info(chars, ver), _expect(chars, ver)))
    elif name in ('_ob_roles5', '_ob_roles6'):
        v = dict(zip(['vi', 'p', 'trav'], a)); v.update(kw)
        perm = (PERMS5 if name == '_ob_roles5' else PERMS6)[v['p']]
        try:
            roles_ok(VERS[v['vi']], [K[x] for x in perm], tr, v.get('trav', False))
        except Exception as e:
            tr.append('raised %s: %s' % (type(e).__name__, e))
    return '\n'.join(tr)


SPEC = {
    'property': 'C07',
    'files': ['hl7apy/core.py', 'hl7apy/parser.py', 'hl7apy/__init__.py', 'hl7apy/consts.py'],
    'functions_encoded': ['hl7apy.parser._split_msh/get_message_info', 'hl7apy.check_encoding_chars', 'hl7apy.get_default_encoding_chars',
                          'hl7apy.core.Message.__init__/_get_encoding_chars/_set_encoding_chars/to_mllp', 'hl7apy.core.Element.encoding_chars/to_er7',
                          'hl7apy.core.Segment.to_er7', 'hl7apy.core.Field.to_er7', 'hl7apy.parser.parse_message and the parser levels below it'],
    'assumptions': ['H.info: the header characters range over every equality pattern x blank placement, spelled with three pools of '
                    'punctuation marks; the case index is symbolic and exhausted (the variant with 5-6 FULLY symbolic characters was '
                    'built and did not confirm within 400 s per piece - 1 800+ paths - and is therefore not claimed; fully symbolic '
                    'headers are covered, with a no-crash oracle, by C15 H.type/H.info)',
                    'M.roles: delimiters are realised from the finite candidate set K=%r (fully symbolic delimiters cannot pass '
                    'str.split under CrossHair); the role assignment index is symbolic and exhausted' % ''.join(K)],
    'outside': ['candidate characters beyond K at message level; delimiter sets that also occur in leaf text'],
    'stubs': [],
    'obligations': [
        {'name': 'H.info4', 'fn': '_ob_info4', 'parts': 4, 'cond_timeout': 900, 'path_timeout': 60,
         'bound': 'get_message_info, header with 4 encoding characters: every equality pattern of the 5 characters x which class is blank x 3 character pools (%d cases) x versions %r' % (NC4, [VERS[x] for x in HV])},
        {'name': 'H.info5', 'fn': '_ob_info5', 'parts': 12, 'cond_timeout': 900, 'path_timeout': 60,
         'bound': 'get_message_info, header with 5 encoding characters: every equality pattern of the 6 characters x which class is blank x 3 character pools (%d cases) x versions %r' % (NC5, [VERS[x] for x in HV])},
        {'name': 'H.check', 'fn': '_ob_check', 'parts': 1, 'cond_timeout': 300, 'path_timeout': 60,
         'bound': 'check_encoding_chars: every (missing key, equalised pair, with/without TRUNCATION)'},
        {'name': 'M.roles5', 'fn': '_ob_roles5', 'parts': 32, 'cond_timeout': 1500, 'path_timeout': 60,
         'bound': 'every injective assignment of 5 roles to K (%d) x versions %r' % (N5, VERS)},
        {'name': 'M.roles6', 'fn': '_ob_roles6', 'parts': 32, 'cond_timeout': 3000, 'path_timeout': 60,
         'bound': 'every injective assignment of 6 roles (with truncation) to K (%d) x versions %r' % (N6, VERS[2:])},
        {'name': 'M.trunc<2.7', 'fn': '_ob_trunc_below27', 'parts': 16, 'cond_timeout': 1500, 'path_timeout': 60,
         'bound': 'a supplied truncation character is not emitted below 2.7: %d assignments x versions %r' % (N6, VERS[:2])},
    ],
}
