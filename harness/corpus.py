"""A corpus of public API calls with EXPLICIT version / validation level / encoding characters (or deriving them from
the message text), used by C17 (independence from process defaults) and C19 (independence from other calls).

Every entry is a zero-argument function returning an observable *signature*: plain data (strings / tuples) only.
`sig(thunk)` turns a raise into ('raised', type name, message)."""
import io

from vlib.chglue import reset_defaults
import hl7apy
from hl7apy import core
from hl7apy.core import Message, Segment, Field, Component, SubComponent
from hl7apy.parser import parse_message, parse_segment, parse_field, parse_component, parse_subcomponent, parse_segments, \
    parse_fields, parse_components
from hl7apy.factories import datatype_factory
from hl7apy.consts import VALIDATION_LEVEL

STRICT, TOL = VALIDATION_LEVEL.STRICT, VALIDATION_LEVEL.TOLERANT
EC = {'FIELD': '!', 'COMPONENT': '*', 'SUBCOMPONENT': '$', 'REPETITION': '@', 'ESCAPE': '?', 'SEGMENT': '\r', 'GROUP': '\r'}
STD = {'FIELD': '|', 'COMPONENT': '^', 'SUBCOMPONENT': '&', 'REPETITION': '~', 'ESCAPE': '\\', 'SEGMENT': '\r', 'GROUP': '\r'}

M25 = 'MSH|^~\\&|A|B|||20200101||ADT^A01^ADT_A01|1|P|2.5\rEVN||20200101\rPID|1||X^^^H&I||S^N~T\rPV1||I\rZZZ|1'
M27 = 'MSH!*@?$#!A!B!!!20200101!!ADT*A01*ADT_A01!1!P!2.7\rEVN!!20200101\rPID!1!!X***H$I!!S*N\rPV1!!I'
M23 = 'MSH|^~\\&|A|B|||20200101||ORU^R01|1|P|2.3\rPID|||1\rOBR|1\rOBX|1|NM|A||1.5'
M24BAD = 'MSH|^~\\&|A|B|||20200101||ADT^A01|1|P|2.4\rEVN||notadate\rPID|abc||1\rPV1||I'


def sig(thunk):
    try:
        return ('ok', thunk())
    except Exception as e:
        return ('raised', type(e).__name__, str(e))


def _report(el):
    buf = io.StringIO()
    r = el.validate(report_file=buf, return_errors=True)
    return (r.is_valid, tuple(str(e) for e in r.errors), tuple(str(w) for w in r.warnings), buf.getvalue())


def _msg_sig(m):
    return (m.to_er7(), m.version, m.validation_level, tuple(sorted(m.encoding_chars.items())), _report(m))


def c_parse25_tol():
    return _msg_sig(parse_message(M25, validation_level=TOL))


def c_parse25_strict_nogroups():
    return _msg_sig(parse_message(M25.replace('\rZZZ|1', ''), validation_level=STRICT, find_groups=False))


def c_parse27_strict():
    return _msg_sig(parse_message(M27, validation_level=STRICT))


def c_parse23_tol():
    return _msg_sig(parse_message(M23, validation_level=TOL))


def c_parse24_bad_tol():
    return _msg_sig(parse_message(M24BAD, validation_level=TOL))


def c_parse24_bad_strict():
    return _msg_sig(parse_message(M24BAD, validation_level=STRICT))


def c_segment_ec():
    s = parse_segment('PID!!!1!!A*B$C@D', version='2.3', encoding_chars=dict(EC), validation_level=TOL)
    return (s.to_er7(dict(EC)), s.version, s.validation_level, s.to_er7(dict(STD)), _report(s)[:3])


def c_segment_longbad_tol():
    # an invalid, over-long SI under an EXPLICIT tolerant level: must fall back to text, never raise
    s = parse_segment('PID|' + 'x' * 250, version='2.5', encoding_chars=dict(STD), validation_level=TOL)
    return (s.to_er7(dict(STD)), s.validation_level)


def c_segment_bad_strict():
    s = parse_segment('PID|abc', version='2.5', encoding_chars=dict(STD), validation_level=STRICT)
    return s.to_er7(dict(STD))


def c_field():
    f = parse_field('A*B$C', name='PID_5', version='2.4', encoding_chars=dict(EC), validation_level=STRICT)
    return (f.to_er7(dict(EC)), f.version, f.validation_level, f.datatype)


def c_component():
    c = parse_component('A$B', name='CX_4', version='2.6', encoding_chars=dict(EC), validation_level=TOL)
    return (c.to_er7(dict(EC)), c.version, c.validation_level, c.datatype)


def c_subcomponent():
    s = parse_subcomponent('a|b^c', name='HD_1', version='2.5', validation_level=STRICT)
    return (s.to_er7(dict(STD)), s.to_er7(dict(EC)), s.version, s.validation_level)


def c_message_build():
    m = Message('ADT_A01', version='2.6', validation_level=STRICT, encoding_chars=dict(EC))
    m.msh.msh_7 = '20200101'
    m.pid = 'PID!1!!X***H$I!!S*N'
    return _msg_sig(m) + (tuple(c.version for c in m.children), m.pid.pid_3.encoding_chars['FIELD'])


def c_group_text():
    # text assigned to a GROUP of a message that has its own delimiters
    m = Message('OML_O33', version='2.5', validation_level=TOL, encoding_chars=dict(EC))
    m.msh.msh_7 = '20200101'
    m.oml_o33_patient = 'PID!1!!id***auth!!SUR*NAME@AL*IAS'
    pid = m.oml_o33_patient.pid
    return _msg_sig(m) + (tuple(c.name for c in pid.children), pid.pid_5[0].xpn_1.to_er7())


_FETCHED_DEFAULTS = hl7apy.get_default_encoding_chars()      # fetched once, when nothing has touched the defaults yet


def c_segment_library_constant():
    # the explicit argument is the library's own constant / a dictionary fetched from the library earlier
    from hl7apy.consts import DEFAULT_ENCODING_CHARS
    a = parse_segment('PID|||1||A^B&C~D', version='2.5', encoding_chars=DEFAULT_ENCODING_CHARS, validation_level=TOL)
    b = parse_segment('PID|||1||A^B&C~D', version='2.5', encoding_chars=_FETCHED_DEFAULTS, validation_level=TOL)
    return (a.to_er7(DEFAULT_ENCODING_CHARS), len(a.pid_5), b.to_er7(_FETCHED_DEFAULTS), len(b.pid_5), b.pid_5[0].xpn_2.to_er7(_FETCHED_DEFAULTS))


def c_message_build_27():
    m = Message('ADT_A01', version='2.7', validation_level=TOL, encoding_chars=dict(STD))
    m.msh.msh_7 = '20200101'
    m.evn.evn_2 = '2020'
    return _msg_sig(m)


def c_segment_build():
    s = Segment('PID', version='2.2', validation_level=TOL)
    s.add(parse_field('A^B', name='PID_5', version='2.2', encoding_chars=dict(STD), validation_level=TOL))
    f = Field('PID_3', version='2.2', validation_level=TOL)
    f.add(parse_component('X', name='CK_1', version='2.2', encoding_chars=dict(STD), validation_level=TOL))
    s.add(f)
    return (s.to_er7(dict(STD)), s.to_er7(dict(EC)), s.version, s.validation_level, f.version)


def c_component_cm():
    # CM is a base datatype in 2.1 only
    c = Component(datatype='CM', version='2.1', validation_level=TOL)
    r = sig(lambda: repr(c.add_subcomponent('CM')))
    return (c.version, c.datatype, r)


def c_component_st25():
    c = Component(datatype='ST', version='2.5', validation_level=TOL)
    r = sig(lambda: repr(c.add_subcomponent('ST')))
    return (c.version, r)


def c_subcomponent_value():
    s = SubComponent(datatype='ST', value='x|y^z', version='2.4', validation_level=TOL)
    return (s.to_er7(dict(STD)), s.to_er7(dict(EC)))


def c_factory_dt():
    return tuple(sig(lambda v=v, d=d, val=val, lv=lv: datatype_factory(d, val, v, lv).to_er7(dict(STD)))
                 for (d, val, v, lv) in (('DT', '20200101', '2.5', STRICT), ('DTM', '202001011230+0100', '2.6', STRICT),
                                         ('TM', '1230', '2.3', STRICT), ('NM', '12.50', '2.4', STRICT), ('SI', '12', '2.2', STRICT)))


def c_factory_fallback():
    # invalid values with an explicit TOLERANT level take the ST fallback
    return tuple(sig(lambda v=v, d=d, val=val: (type(datatype_factory(d, val, v, TOL)).__name__,
                                                datatype_factory(d, val, v, TOL).to_er7(dict(STD))))
                 for (d, val, v) in (('DT', 'notadate', '2.5'), ('NM', 'abc|d', '2.7'), ('SI', 'x' * 250, '2.3'), ('TM', '99', '2.6')))


def c_factory_strict_bad():
    return tuple(sig(lambda v=v, d=d, val=val: datatype_factory(d, val, v, STRICT).to_er7(dict(STD)))
                 for (d, val, v) in (('DT', 'notadate', '2.5'), ('NM', 'abc', '2.7'), ('SI', '1.5', '2.3'), ('ST', 'x' * 250, '2.6'),
                                     ('XX', '1', '2.5')))


def c_textual_27():
    lib = hl7apy.load_library('2.7')
    st = lib.ST('a#b|c', validation_level=TOL)
    ec27 = dict(STD, TRUNCATION='#')
    return (st.to_er7(ec27), st.to_er7(dict(EC)))


def c_is_base():
    return tuple(core.is_base_datatype(d, v) for d, v in (('CM', '2.1'), ('CM', '2.5'), ('SNM', '2.7'), ('SNM', '2.6'), ('TN', '2.4'),
                                                          ('TN', '2.5'), ('GTS', '2.5'), ('GTS', '2.4')))


def c_parse_lists():
    segs = parse_segments('EVN||2020\rPID|1', version='2.3', encoding_chars=dict(STD), validation_level=TOL)
    flds = parse_fields('1!A*B', name_prefix='NK1', version='2.4', encoding_chars=dict(EC), validation_level=TOL)
    cmps = parse_components('A*B', field_datatype='XPN', version='2.5', encoding_chars=dict(EC), validation_level=STRICT)
    return (tuple((s.name, s.version, s.validation_level) for s in segs),
            tuple((f.name, f.version, f.validation_level, f.to_er7(dict(EC))) for f in flds),
            tuple((c.name, c.version, c.validation_level) for c in cmps))


def c_zfield_datatypes():
    # a Z-field with an explicit datatype whose base / complex status depends on the version
    out = []
    for dt, v in (('TN', '2.4'), ('IS', '2.5'), ('CM', '2.1'), ('SNM', '2.7'), ('GTS', '2.6'), ('CX', '2.3'), ('TM', '2.2'), ('DTM', '2.5')):
        def mk(dt=dt, v=v):
            f = Field('ZAB_1', datatype=dt, version=v, validation_level=TOL)
            return (f.datatype, f.version, sorted(f.structure_by_name or {})[:3], repr(f.reference[:1]))
        out.append(sig(mk))
    return tuple(out)


def c_component_retype():
    # under TOLERANT a named component of complex datatype can be given another complex datatype
    c = Component('CX_10', version='2.5', validation_level=TOL)
    c.datatype = 'CE'
    c.ce_1 = 'X'
    return (c.datatype, c.to_er7(dict(STD)), sorted(c.structure_by_name)[:3])


def c_component_cx10():
    c = Component('CX_10', version='2.5', validation_level=TOL)
    c.cwe_9 = 'orig'
    c.cwe_1 = 'id'
    f = parse_field('1^^^^^^^^^A&B&C&D&E&F&G&H&I', name='PID_3', version='2.5', encoding_chars=dict(STD), validation_level=TOL)
    return (c.datatype, c.to_er7(dict(STD)), f.to_er7(dict(STD)), len(c.structure_by_name), f.pid_3_10.datatype)


def c_field_retype():
    f = Field('PID_5', version='2.4', validation_level=TOL)
    f.datatype = 'CE'
    f.ce_2 = 'text'
    g = Field('PID_5', version='2.4', validation_level=TOL)
    g.xpn_2 = 'N'
    return (f.to_er7(dict(STD)), g.to_er7(dict(STD)), g.datatype)


CALLS = [c_zfield_datatypes, c_component_retype, c_component_cx10, c_field_retype, c_parse25_tol, c_parse25_strict_nogroups, c_parse27_strict, c_parse23_tol, c_parse24_bad_tol, c_parse24_bad_strict,
         c_segment_ec, c_segment_longbad_tol, c_segment_bad_strict, c_field, c_component, c_subcomponent, c_message_build,
         c_message_build_27, c_group_text, c_segment_library_constant, c_segment_build, c_component_cm, c_component_st25, c_subcomponent_value, c_factory_dt,
         c_factory_fallback, c_factory_strict_bad, c_textual_27, c_is_base, c_parse_lists]
NCALLS = len(CALLS)
