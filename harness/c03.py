"""C03 - parsing never silently drops or reorders content (E1, message level).

message = MSH line of a panel + L lines, each chosen by a symbolic index from the panel's pool (in-structure required /
optional / repeatable, nested in a group, valid-but-foreign segment, Z-segment, line with fields beyond the defined
count, line with repetitions/components/subcomponents); find_groups symbolic; TOLERANT.
Either an HL7apyException is raised, or the encoded result has the same segment names in the same order and, per
segment, the same non-empty leaf values in the same order.
"""
import re

from vlib.chglue import PART_K, PART_N, TIER, THOROUGH, in_part, reset_defaults, concrete
from harness.c02 import bsearch
from hl7apy.parser import parse_message
from hl7apy.exceptions import HL7apyException

PANELS = [
    ('MSH|^~\\&|A|B|||2020||ADT^A01^ADT_A01|1|P|2.5',
     ['EVN||2020', 'PID|||1||S', 'NK1|1|N^M', 'PV1||I', 'IN1|1|A|B', 'ORC|NW', 'ZZZ|1|2', 'OBX|1|ST|A||v||||||F',
      'PID|||1~2||S^T&U~V', 'AL1|1', 'DG1|1||C', 'PR1|1||P', 'ROL|1|AD|R', 'IN2|1', 'NTE|1']),
    ('MSH|^~\\&|A|B|||2020||ORU^R01|1|P|2.3',
     ['PID|||1', 'OBR|1', 'OBX|1|NM|A||1.5', 'NTE|1', 'ORC|RE', 'ZZZ|1|2', 'PV1||I', 'EVN||2020', 'DSC|1', 'OBX|2|CE|B||3092008^^SCT', 'NK1|1',
      'PID|||2||S||||||||555-1234^PRN']),      # XTN-1 is the base datatype TN in 2.3
    ('MSH|^~\\&|A|B|||2020||ZAA^Z01^ZAA_Z01|1|P|2.5',
     ['EVN||2020', 'PID|||1||S', 'ZZZ|1|2', 'ZAB|x^y', 'OBX|1|CE|A||^v&w^^x', 'NK1|1']),
    ('MSH|^~\\&|A|B|||2020||OML^O33^OML_O33|1|P|2.7',
     ['PID|||1||S', 'PV1||I', 'SPM|1', 'ORC|NW', 'OBR|1', 'OBX|1|ST|A||v', 'TQ1|1', 'SAC|1', 'ZZZ|1|2', 'NTE|1', 'EVN||2020', 'SPM|2',
      'PID|||2||S||||||||^PRN^PH^^1^555^1234']),      # XTN-5..7 are the base datatype SNM from 2.7
]
NPANEL = len(PANELS)
L = 4 if THOROUGH else 3


def _all_seqs():
    out = []
    for pi, (_, pool) in enumerate(PANELS):
        level = [()]
        out.append((pi, ()))
        for _ in range(L):
            level = [sq + (k,) for sq in level for k in range(len(pool))]
            out.extend((pi, sq) for sq in level)
    return out


SEQS = _all_seqs()
NSEQ = len(SEQS)
EXTRAS = [0, 2]


def leaves(line):
    return [x for x in re.split(r'[|^~&]', line)[1:] if x.strip()]


def build(pi, ks, extra):
    hdr, pool = PANELS[pi]
    lines = []
    for q, k in enumerate(ks):
        if k < len(pool):
            ln = pool[k]
            if extra and q == len(ks) - 1:
                ln = ln + '|' * 60 + '|'.join('e%d' % x for x in range(1, extra + 1))   # fields beyond the defined count
            lines.append(ln)
    return hdr, lines


def check(pi, ks, extra, fg, trace=None):
    reset_defaults()
    hdr, lines = build(pi, ks, extra)
    text = '\r'.join([hdr] + lines)
    try:
        m = parse_message(text, validation_level=2, find_groups=fg)
    except HL7apyException as e:
        if trace is not None:
            trace.append('parse_message(%r, find_groups=%s) raised %s' % (text, fg, type(e).__name__))
        return True
    out = m.to_er7()
    out_lines = [x for x in out.split('\r') if x]
    ok = [x[:3] for x in out_lines] == ['MSH'] + [x[:3] for x in lines] and \
        all(leaves(a) == leaves(b) for a, b in zip(out_lines[1:], lines))
    if trace is not None:
        trace.append('find_groups=%s\n  input  %r\n  output %r' % (fg, text, out))
    return ok


def _ob_seq(r: int, xi: int, fg: bool) -> bool:
    """
    pre: 0 <= r < NSEQ and 0 <= xi < 2
    pre: in_part(r)
    post: _
    """
    r, xi = bsearch(r, NSEQ), bsearch(xi, 2)
    with concrete():
        pi, ks = SEQS[r]
        return check(pi, list(ks), EXTRAS[xi], fg)


def explain(call):
    m = re.match(r'(\w+)\((.*)\)$', call, re.S)
    a, kw = eval('(lambda *a, **k: (a, k))(%s)' % m.group(2))
    v = dict(zip(['r', 'xi', 'fg'], a)); v.update(kw)
    tr = []
    pi, ks = SEQS[v['r']]
    check(pi, list(ks), EXTRAS[v['xi']], v['fg'], tr)
    return '\n'.join(tr)


SPEC = {
    'property': 'C03',
    'files': ['hl7apy/parser.py', 'hl7apy/core.py'],
    'functions_encoded': ['hl7apy.parser.parse_message/parse_segments/_get_segment_reference/parse_segment/parse_fields/parse_field',
                          'hl7apy.core.Message/Group/Segment (construction, add, to_er7, _get_children)'],
    'assumptions': ['TOLERANT level; 4 message panels (ADT_A01 2.5, ORU_R01 2.3, Z-message 2.5, OML_O33 2.7) with pools of 6-15 lines',
                    'line choices, number of extra fields and find_groups are symbolic and exhausted by CrossHair/z3; each message '
                    'then runs concretely'],
    'outside': ['messages with more than %d segment lines after MSH; lines outside the pools; STRICT' % L],
    'stubs': [],
    'obligations': [
        {'name': 'seq', 'fn': '_ob_seq', 'parts': 32, 'cond_timeout': {'quick': 900, 'thorough': 3000}, 'path_timeout': 60,
         'bound': '%d panels x every sequence of <=%d lines from the panel pool (%d sequences) x {0,2} extra fields x find_groups in {True, False}' % (NPANEL, L, NSEQ)},
    ],
}
