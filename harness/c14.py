"""C14 - name, long name, position and letter case all address the same child.

E1 rows (row index symbolic, exhausted by CrossHair/z3, ALL rows of ALL versions):
   A.fields   segment -> field        (HL7 name / long name) x (upper, lower, alternating case) x (read, write, delete)
   A.comps    field   -> component    (name / long name / positional <fld>_<j>)            likewise
   A.subs     field -> component -> subcomponent (name / long name / positional <fld>_<j>_<k>)
   N.neg      names that designate no child of that parent -> ChildNotFound / ChildNotValid, parent unchanged
E3: the long-name domain ("unique within the parent") decided by z3 per parent table and compared with the domain E1 uses.
"""
import time

from vlib.chglue import PART_K, PART_N, TIER, THOROUGH, KNOWN_OFF, in_part, reset_defaults, concrete
from harness.c02 import bsearch, FIELD_ROWS, COMP_ROWS
from harness import tables as T
from hl7apy.core import Segment, Field, Component, Element, SupportComplexDataType
from hl7apy.exceptions import ChildNotFound, ChildNotValid

SEG_ATTRS = set(a.lower() for a in Segment.cls_attrs)
FLD_ATTRS = set(a.lower() for a in Field.cls_attrs)
CMP_ATTRS = set(a.lower() for a in Component.cls_attrs)


def cases(name):
    alt = ''.join(c.upper() if i % 2 == 0 else c.lower() for i, c in enumerate(name))
    return [name.upper(), name.lower(), alt]


def long_ok(children, k, attrs):
    """the long name of child k is usable: present, unique within the parent, not an element attribute, not a sibling's HL7 name"""
    ref = children[k][1]
    ln = ref[3] if len(ref) > 3 else None
    if not ln:
        return None
    lns = [(c[1][3] if len(c[1]) > 3 else None) for c in children]
    if sum(1 for x in lns if x is not None and x.upper() == ln.upper()) != 1:
        return None
    if ln.lower() in attrs:
        return None
    if any(c[0].upper() == ln.upper() for c in children):
        return None
    return ln


def _same_child(parent, canonical, spellings, empty, trace):
    """read / write / delete through every spelling reaches the canonical child"""
    canon_proxy = getattr(parent, canonical.lower())
    for sp in spellings:
        p = getattr(parent, sp)
        if p is not canon_proxy:
            if trace is not None:
                trace.append('read %r gives another proxy than %r' % (sp, canonical))
            return False
    for wi, sp in enumerate(spellings):
        val = 'W%d' % wi
        setattr(parent, sp, val)
        els = [getattr(parent, s2) for s2 in spellings]
        first = els[0]
        if len(first) != 1 or first[0].to_er7() != val:
            if trace is not None:
                trace.append('after write through %r: canonical spelling reads %r' % (sp, [e.to_er7() for e in first]))
            return False
        for s2, e in zip(spellings, els):
            if len(e) != 1 or e[0] is not first[0]:
                if trace is not None:
                    trace.append('after write through %r: spelling %r reaches another element' % (sp, s2))
                return False
        delattr(parent, spellings[(wi + 1) % len(spellings)])
        if len(getattr(parent, canonical.lower())) != 0 or parent.to_er7() != empty:
            if trace is not None:
                trace.append('delete through %r did not remove the child written through %r: %r' % (
                    spellings[(wi + 1) % len(spellings)], sp, parent.to_er7()))
            return False
    return True


def field_alias(v, s, k, trace=None):
    ch = T.seg_children(v, s)
    name = ch[k][0]
    if s == 'MSH' and T.child_number(name) in (1, 2):
        return True
    seg = Segment(s, version=v, validation_level=2)
    sp = cases(name)
    ln = long_ok(ch, k, SEG_ATTRS)
    if ln:
        sp += cases(ln)
    if trace is not None:
        trace.append('%s %s child %s spellings %r' % (v, s, name, sp))
    if not _same_child(seg, name, sp, seg.to_er7(), trace):
        return False
    # a field of base datatype has one component, named after the datatype: any letter case and the positional path reach it
    f = Field(name, version=v, validation_level=2)
    dt = f.datatype       # (the stand-alone field's own datatype: a few withdrawn rows of segments.py point to a neighbour's FIELDS entry)
    if dt in T.LIBS[v].BASE_DATATYPES and dt not in ('WD',):
        sp2 = cases(dt) + cases('%s_1' % name)
        if trace is not None:
            trace.append('%s Field %s (base datatype %s) component spellings %r' % (v, name, dt, sp2))
        val = {'DT': '2020', 'DTM': '2020', 'TM': '12', 'NM': '1', 'SI': '1', 'TN': '555-1234'}.get(dt, 'W')
        for wi, s1 in enumerate(sp2):
            setattr(f, s1, val)
            for s2 in sp2:
                got = getattr(f, s2)
                if len(got) != 1 or got[0].to_er7() != val:
                    if trace is not None:
                        trace.append('written through %r, read through %r -> %r' % (s1, s2, [g.to_er7() for g in got]))
                    return False
            delattr(f, sp2[(wi + 1) % len(sp2)])
            if len(f.children) != 0:
                if trace is not None:
                    trace.append('delete through %r left %r' % (sp2[(wi + 1) % len(sp2)], f.children))
                return False
    return True


def comp_alias(v, d, j, k, trace=None):
    comps = T.dt_children(v, d)
    cname = comps[j][0]
    cn = T.child_number(cname)
    f = Field('ZZZ_1', datatype=d, version=v, validation_level=2)
    if k < 0:
        sp = cases(cname) + cases('ZZZ_1_%d' % cn)
        ln = long_ok(comps, j, FLD_ATTRS)
        if ln:
            sp += cases(ln)
        if trace is not None:
            trace.append('%s Field(datatype=%s) child %s spellings %r' % (v, d, cname, sp))
        return _same_child(f, cname, sp, f.to_er7(), trace)
    cd = T.child_datatype(comps[j])
    subs = T.dt_children(v, cd)
    sname = subs[k][0]
    sn = T.child_number(sname)
    comp = getattr(f, cname.lower())
    # through the component: name / long name ; through the field: positional path
    sp = cases(sname)
    ln = long_ok(subs, k, CMP_ATTRS)
    if ln:
        sp += cases(ln)
    if trace is not None:
        trace.append('%s Field(datatype=%s).%s child %s spellings %r + positional' % (v, d, cname, sname, sp))
    for wi, s1 in enumerate(sp):
        setattr(comp, s1, 'W%d' % wi)
        for path in cases('ZZZ_1_%d_%d' % (cn, sn)):
            got = getattr(f, path)
            if len(got) != 1 or got[0].to_er7() != 'W%d' % wi:
                return False
        for s2 in sp:
            got = getattr(getattr(f, cname.lower()), s2)
            if len(got) != 1 or got[0].to_er7() != 'W%d' % wi:
                return False
    for pi, path in enumerate(cases('ZZZ_1_%d_%d' % (cn, sn))):
        setattr(f, path, 'P%d' % pi)
        got = getattr(getattr(f, cname.lower()), sname.lower())
        if len(got) != 1 or got[0].to_er7() != 'P%d' % pi:
            return False
    want = '^' * (cn - 1) + '&' * (sn - 1) + 'P2'
    if f.to_er7() != want:
        if trace is not None:
            trace.append('encoding %r expected %r' % (f.to_er7(), want))
        return False
    delattr(f, 'ZZZ_1_%d_%d' % (cn, sn))
    return len(getattr(getattr(f, cname.lower()), sname.lower())) == 0


def neg_row(v, s, k, trace=None):
    """names that designate no child of segment s (field row k gives the context)"""
    ch = T.seg_children(v, s)
    seg = Segment(s, version=v, validation_level=2)
    name = ch[k][0]
    n = T.child_number(name)
    last = T.child_number(ch[-1][0])
    other = 'PID' if s != 'PID' else 'EVN'
    bad = ['%s_%d' % (other, n), '%s_%d' % (s, last + 1), '%s_0' % s, '%s_%d_x' % (s, n), '%s__%d' % (s, n), 'NOSUCHLONGNAME_%d' % n]
    if seg.allow_infinite_children:
        bad = []             # any index designates a child there (C02 Z.open): only the field-level part below applies
    if '%s_0' % s in [c[0] for c in ch]:
        bad.remove('%s_0' % s)
    before = (seg.to_er7(), len(seg.children), dict(seg.children.traversal_indexes))
    for b in bad:
        for op in ('get', 'set', 'del'):
            try:
                if op == 'get':
                    r = getattr(seg, b.lower())
                    # returning None is how an unknown lookup would "succeed" silently
                    if r is not None:
                        if trace is not None:
                            trace.append('%s %s: read of %r returned %r' % (v, s, b, r))
                        return False
                    continue
                elif op == 'set':
                    setattr(seg, b.lower(), 'X')
                else:
                    delattr(seg, b.lower())
                if trace is not None:
                    trace.append('%s %s: %s of %r did not raise' % (v, s, op, b))
                return False
            except (ChildNotFound, ChildNotValid):
                pass
            except Exception as e:
                if op == 'del' and isinstance(e, (AttributeError,)):
                    # deleting an absent child of a known name is C12's subject; an unknown name must be refused properly
                    if trace is not None:
                        trace.append('%s %s: del of %r raised %r' % (v, s, b, e))
                    return False
                if trace is not None:
                    trace.append('%s %s: %s of %r raised %s: %s' % (v, s, op, b, type(e).__name__, e))
                return False
    after = (seg.to_er7(), len(seg.children), dict(seg.children.traversal_indexes))
    if before != after:
        return False
    # the same at field level: positional paths that belong to ANOTHER field of the segment designate nothing here
    f = Field(name, version=v, validation_level=2)
    if s == 'MSH':
        return True
    if f.datatype == 'varies':
        # the components of a field of type varies have no structure: a positional SUBcomponent path designates nothing
        for path in ('%s_%d_1_1' % (s, n), '%s_%d_2_1' % (s.lower(), n)):
            for op in ('get', 'set', 'del'):
                try:
                    if op == 'get':
                        getattr(f, path)
                    elif op == 'set':
                        setattr(f, path, 'X')
                    else:
                        delattr(f, path)
                    if trace is not None:
                        trace.append('%s Field %s (varies): %s through %r did not raise' % (v, name, op, path))
                    return False
                except (ChildNotFound, ChildNotValid):
                    pass
                except Exception as e:
                    if trace is not None:
                        trace.append('%s Field %s (varies): %s of %r raised %s: %s' % (v, name, op, path, type(e).__name__, e))
                    return False
        return f.to_er7() == ''
    fb = (f.to_er7(), len(f.children))
    others = sorted({n * 10, n * 10 + 3, n + 1, n + 10, int('1%d' % n)} - {n})
    for j in others:
        for path in ('%s_%d_1' % (s, j), '%s_%d_1_1' % (s, j), '%s_%d_2' % (s.lower(), j)):
            for op in ('get', 'set', 'del'):
                try:
                    if op == 'get':
                        r = getattr(f, path)
                        if trace is not None:
                            trace.append('%s Field %s: read of foreign path %r returned %r' % (v, name, path, r))
                        return False
                    elif op == 'set':
                        setattr(f, path, 'X')
                    else:
                        delattr(f, path)
                    if trace is not None:
                        trace.append('%s Field %s: %s through foreign path %r did not raise' % (v, name, op, path))
                    return False
                except (ChildNotFound, ChildNotValid):
                    pass
                except Exception as e:
                    if trace is not None:
                        trace.append('%s Field %s: %s of %r raised %s: %s' % (v, name, op, path, type(e).__name__, e))
                    return False
    return fb == (f.to_er7(), len(f.children))


SUB_ROWS = [r for r in COMP_ROWS if r[3] >= 0]
CMP_ROWS = [r for r in COMP_ROWS if r[3] < 0]
NF, NCM, NSB = len(FIELD_ROWS), len(CMP_ROWS), len(SUB_ROWS)
# negative lookups depend on the segment, not on the field: first, middle and last field row of every segment
_by_seg = {}
for _r in FIELD_ROWS:
    _by_seg.setdefault(_r[:2], []).append(_r)
NEG_ROWS = sorted({x for rows in _by_seg.values() for x in (rows[0], rows[len(rows) // 2], rows[-1])} |
                  {r for r in FIELD_ROWS if T.child_datatype(T.seg_children(T.VERSIONS[r[0]], T.SEGS[T.VERSIONS[r[0]]][r[1]])[r[2]]) == 'varies'})
NNEG = len(NEG_ROWS)


def _ob_field(r: int) -> bool:
    """
    pre: 0 <= r < NF
    pre: in_part(r)
    post: _
    """
    r = bsearch(r, NF)
    with concrete():
        reset_defaults()
        vi, si, k = FIELD_ROWS[r]
        v = T.VERSIONS[vi]
        return field_alias(v, T.SEGS[v][si], k)


def _ob_comp(r: int) -> bool:
    """
    pre: 0 <= r < NCM
    pre: in_part(r)
    post: _
    """
    r = bsearch(r, NCM)
    with concrete():
        reset_defaults()
        vi, di, j, k = CMP_ROWS[r]
        v = T.VERSIONS[vi]
        return comp_alias(v, T.DTS[v][di], j, -1)


def _ob_sub(r: int) -> bool:
    """
    pre: 0 <= r < NSB
    pre: in_part(r)
    post: _
    """
    r = bsearch(r, NSB)
    with concrete():
        reset_defaults()
        vi, di, j, k = SUB_ROWS[r]
        v = T.VERSIONS[vi]
        return comp_alias(v, T.DTS[v][di], j, k)


def _ob_neg(r: int) -> bool:
    """
    pre: 0 <= r < NNEG
    pre: in_part(r)
    post: _
    """
    r = bsearch(r, NNEG)
    with concrete():
        reset_defaults()
        vi, si, k = NEG_ROWS[r]
        v = T.VERSIONS[vi]
        return neg_row(v, T.SEGS[v][si], k)


def _e3_longnames(tier, seed, nproc):
    """z3 per parent table: exists i<j with the same long name?  The set of rows z3 reports must be exactly the set of rows
    whose long name E1 does not use."""
    import z3
    ln = z3.Function('ln', z3.IntSort(), z3.IntSort())
    i, j = z3.Ints('i j')
    s = z3.Solver()
    s.set('timeout', 60000)
    interned = {}
    queries = 0
    solver_s = 0.0
    mismatches = []
    excluded = 0
    tables = []
    for v in T.VERSIONS:
        for sname in T.SEGS[v]:
            ch = T.seg_children(v, sname)
            if ch:
                tables.append((v, sname, ch, SEG_ATTRS))
        for d in T.DTS[v]:
            tables.append((v, d, T.dt_children(v, d), FLD_ATTRS))
    for v, pname, ch, attrs in tables:
        s.push()
        for k, c in enumerate(ch):
            name = c[1][3] if len(c[1]) > 3 else None
            key = interned.setdefault(name.upper() if name else ('#none', v, pname, k), len(interned))
            s.add(ln(k) == key)
        s.add(i >= 0, i < len(ch), j >= 0, j < len(ch), i != j, ln(i) == ln(j))
        dup = set()
        while True:
            q0 = time.time()
            res = str(s.check())
            solver_s += time.time() - q0
            queries += 1
            if res != 'sat':
                if res != 'unsat':
                    return {'status': 'unknown', 'message': 'z3: %s' % res}
                break
            iv = s.model()[i].as_long()
            dup.add(iv)
            s.add(i != iv)
        s.pop()
        for k in range(len(ch)):
            has = bool(ch[k][1][3] if len(ch[k][1]) > 3 else None)
            used = long_ok(ch, k, set()) is not None   # uniqueness part only (attribute / sibling-name clashes are separate)
            sibling = has and any(c[0].upper() == ch[k][1][3].upper() for c in ch)
            if has and (k in dup) == (used or sibling) and not sibling:
                mismatches.append((v, pname, ch[k][0]))
        excluded += len(dup)
    return {'status': 'confirmed' if not mismatches else 'error', 'message': 'long-name domain mismatch: %r' % mismatches[:5] if mismatches else '',
            'queries': queries, 'solver_s': round(solver_s, 2), 'pieces_total': len(tables), 'pieces_confirmed': len(tables),
            'samples': [{'parent_tables': len(tables), 'rows_with_duplicate_long_name_excluded': excluded}]}


def explain(call):
    import re
    m = re.match(r'(\w+)\((.*)\)$', call, re.S)
    a, kw = eval('(lambda *a, **k: (a, k))(%s)' % m.group(2))
    r = a[0] if a else kw['r']
    tr = []
    try:
        if m.group(1) == '_ob_field':
            vi, si, k = FIELD_ROWS[r]
            v = T.VERSIONS[vi]
            field_alias(v, T.SEGS[v][si], k, tr)
        elif m.group(1) == '_ob_neg':
            vi, si, k = NEG_ROWS[r]
            v = T.VERSIONS[vi]
            tr.append('%s %s row %d' % (v, T.SEGS[v][si], k))
            neg_row(v, T.SEGS[v][si], k, tr)
        else:
            vi, di, j, k = (CMP_ROWS if m.group(1) == '_ob_comp' else SUB_ROWS)[r]
            v = T.VERSIONS[vi]
            comp_alias(v, T.DTS[v][di], j, k, tr)
    except Exception as e:
        tr.append('raised %s: %s' % (type(e).__name__, e))
    return '\n'.join(tr)


SPEC = {
    'property': 'C14',
    'files': ['hl7apy/core.py'] + ['hl7apy/v%s/fields.py' % v.replace('.', '_') for v in T.VERSIONS] +
             ['hl7apy/v%s/datatypes.py' % v.replace('.', '_') for v in T.VERSIONS],
    'functions_encoded': ['hl7apy.core.ElementFinder._parse_structure (structure_by_name / structure_by_longname)',
                          'hl7apy.core.Element.find_child_reference (+ Segment/Field/SupportComplexDataType overrides)',
                          'hl7apy.core.ElementList._default_child_lookup/_find_name/set/remove_by_name/child_at_index',
                          'hl7apy.core.Field._get_traversal_children/_do_traversal', 'hl7apy.core.Element.__getattr__/__setattr__/__delattr__'],
    'assumptions': ['TOLERANT level; long names used only where unique within the parent, not an element attribute name and not a '
                    'sibling HL7 name (the property\'s own restriction; the excluded rows are counted by the E3 obligation)',
                    'row index symbolic and exhausted by CrossHair/z3; per row the spellings (3 letter cases x name / long name / '
                    'positional) and the operations read, write, delete are all exercised concretely'],
    'outside': ['messages/groups as parents (segment and group lookup by name is exercised by C09/C11); STRICT'],
    'stubs': [],
    'obligations': [
        {'name': 'A.fields', 'fn': '_ob_field', 'parts': 48, 'cond_timeout': 1500, 'path_timeout': 60,
         'bound': 'ALL %d field rows x {name, long name} x 3 letter cases x {read, write, delete}' % NF},
        {'name': 'A.comps', 'fn': '_ob_comp', 'parts': 16, 'cond_timeout': 1500, 'path_timeout': 60,
         'bound': 'ALL %d component rows x {name, long name, positional} x 3 cases x {read, write, delete}' % NCM},
        {'name': 'A.subs', 'fn': '_ob_sub', 'parts': 16, 'cond_timeout': 1500, 'path_timeout': 60,
         'bound': 'ALL %d subcomponent rows x {name, long name, positional path from the field} x 3 cases' % NSB},
        {'name': 'N.neg', 'fn': '_ob_neg', 'parts': 16, 'cond_timeout': 1500, 'path_timeout': 60,
         'bound': 'for 3 field rows of EVERY segment (%d rows): 6 names that designate no child (other segment\'s field, index n+1, index 0, malformed '
                  'paths, unknown long name) x {read, write, delete} -> ChildNotFound/ChildNotValid, parent unchanged' % NNEG},
        {'name': 'D.longnames', 'engine': 'E3', 'worker': '_e3_longnames',
         'bound': 'z3 per parent table: rows whose long name is not unique (excluded from the long-name spellings)'},
    ],
}
