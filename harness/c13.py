"""C13 - base datatype values: acceptance matches HL7 syntax and text is preserved.

E2 (pysym): hl7apy.factories.datatype_factory(D, s, version, level) - i.e. the real hl7apy/utils.py, factories.py and
   base_datatypes.py, re-executed from their current source on a symbolic string s of concrete length n - is explored path by
   path (length dispatch, offset regex, look at value[6], precision, offset range, strptime / strftime, int, Decimal); per
   path z3 decides
     A1  STRICT accepts            =>  s is in the HL7 grammar of D          (modulo recorded lenient families)
     A2  s in the HL7 grammar      =>  STRICT accepts
     R1  accepted                  =>  to_er7() == s   (numerics: when s is a canonical plain decimal)
     T1  TOLERANT never raises, and to_er7() == s
     M1  STRICT and text longer than max_length => MaxLengthReached (NM, SI)
   for every n <= bound over the alphabet  0-9 . + - blank A _ newline E.
G (boundary grid): the property's boundary cases as a finite catalogue through the unmodified library (symbolic index).
"""
import multiprocessing
import re
import time

from vlib.chglue import PART_K, PART_N, TIER, THOROUGH, KNOWN_OFF, in_part, reset_defaults, concrete, known_open
import hl7apy

ALPHABET = '0123456789.+- A_\nE'
STD = {'FIELD': '|', 'COMPONENT': '^', 'SUBCOMPONENT': '&', 'REPETITION': '~', 'ESCAPE': '\\'}
NMAX = {'DT': 9, 'TM': 17, 'DTM': 26, 'SI': 7, 'NM': 18}
CROSS_NMAX = 26      # obligation queries up to this length are decided a second time (cvc5 / z3 4.8.12) in the thorough tier
VERSION = {'DT': '2.5', 'TM': '2.5', 'DTM': '2.5', 'SI': '2.5', 'NM': '2.5'}
NMAX_OTHER = 99 if THOROUGH else 6     # E2 length bound for the versions other than VERSION[D] (datatype_factory dispatches per version); thorough: the full lengths


def all_versions():
    import hl7apy
    return sorted(hl7apy.SUPPORTED_LIBRARIES)


def has_datatype(D, version):
    import hl7apy
    return D in hl7apy.load_library(version).get_base_datatypes()


def version_pairs():
    """(datatype, version) for every version in which the datatype is a base datatype"""
    return [(D, v) for D in ('DT', 'TM', 'DTM', 'SI', 'NM') for v in all_versions() if has_datatype(D, v)]
YEAR_MIN = 1000       # the property quantifies over years 1000-9999 (years below 1000: recorded finding on rendering)


# ---- HL7 grammars as z3 conditions over a PStr of concrete length (harness data) ----------------------------------------------
def _g_digits(s, a, b):
    from pysym import And
    return And(*[s.is_digit(k) for k in range(a, b)])


def g_date(s, a, n):
    """YYYY[MM[DD]] at s[a:a+n]"""
    import z3
    from pysym import And
    from pysym.shims import _dim
    if n not in (4, 6, 8):
        return False
    y = s.number(a, a + 4)
    c = [_g_digits(s, a, a + n), y >= YEAR_MIN]
    if n >= 6:
        m = s.number(a + 4, a + 6)
        c += [m >= 1, m <= 12]
        if n == 8:
            d = s.number(a + 6, a + 8)
            c += [d >= 1, d <= _dim(y, m)]
    return And(*c)


def g_time(s, a, n):
    """HH[MM[SS[.S{1,4}]]] at s[a:a+n]"""
    from pysym import And
    from pysym.pstr import ceq
    if n not in (2, 4, 6, 8, 9, 10, 11):
        return False
    c = [_g_digits(s, a, a + min(n, 6)), s.number(a, a + 2) <= 23]
    if n >= 4:
        c.append(s.number(a + 2, a + 4) <= 59)
    if n >= 6:
        c.append(s.number(a + 4, a + 6) <= 59)
    if n >= 8:
        c += [ceq(s.chars[a + 6], ord('.')), _g_digits(s, a + 7, a + n)]
    return And(*c)


def g_offset(s, a):
    """[+-]ZZZZ at s[a:a+5] within -1200 .. +1400"""
    import z3
    from pysym import And, Or
    from pysym.pstr import ceq
    hh, mm = s.number(a + 1, a + 3), s.number(a + 3, a + 5)
    plus = And(ceq(s.chars[a], ord('+')), z3.Or(hh < 14, z3.And(hh == 14, mm == 0)))
    minus = And(ceq(s.chars[a], ord('-')), z3.Or(hh < 12, z3.And(hh == 12, mm == 0)))
    return And(_g_digits(s, a + 1, a + 5), mm <= 59, Or(plus, minus))


def grammar(D, s):
    from pysym import Or, And
    n = len(s)
    if D == 'DT':
        return g_date(s, 0, n)
    if D == 'SI':
        return And(n <= 4, _g_digits(s, 0, n)) if n <= 4 else False
    if D == 'NM':
        return g_nm(s)
    alts = []
    for off in (0, 5):
        body = n - off
        if body < 0:
            continue
        o = g_offset(s, body) if off else True
        if D == 'TM':
            alts.append(And(g_time(s, 0, body), o))
        else:
            if body in (4, 6, 8):
                alts.append(And(g_date(s, 0, body), o))
            elif body > 8:
                alts.append(And(g_date(s, 0, 8), g_time(s, 8, body - 8), o))
    return Or(*alts)


def g_nm(s):
    """[+-]?digits[.digits] within 16 characters"""
    from pysym import Or, And
    from pysym.pstr import ceq, cin
    n = len(s)
    if n == 0:
        return True          # an empty value is allowed
    if n > 16:
        return False
    alts = []
    for sign in (0, 1):
        if sign and n < 2:
            continue
        sg = cin(s.chars[0], {43, 45}) if sign else True
        # no fraction
        alts.append(And(sg, _g_digits(s, sign, n)))
        for dot in range(sign + 1, n - 1):
            alts.append(And(sg, _g_digits(s, sign, dot), ceq(s.chars[dot], 46), _g_digits(s, dot + 1, n)))
    return Or(*alts)


# ---- one E2 task: (datatype, length) ------------------------------------------------------------------------------------------
def _e2_task(args):
    D, n, exclude = args[:3]
    version = args[3] if len(args) > 3 else VERSION[D]
    import z3
    from pysym import loader, shims, Unsupported, SymStr, And, Or, Not, cross
    from pysym.pstr import PStr, Explorer, SymInt, cin
    PLAIN = set(range(48, 58)) | {43, 45, 46}
    t0 = time.time()
    res = {'D': D, 'n': n, 'version': version, 'paths': 0, 'queries': 0, 'solver_s': 0.0, 'cex': [], 'unknown': [], 'lenient_paths': 0}
    res.update(cross.new_stats())
    try:
        mods = loader.load()
        factories = mods['hl7apy.factories']
        solver = z3.Solver()
        solver.set('timeout', 60000)
        s = PStr.fresh('s', n, ALPHABET, solver)
        G = grammar(D, s)
        if D in ('DT', 'DTM') and n >= 4:
            # years 0001-0999 are outside the property's quantifier (1000-9999): assumed away
            solver.add(z3.Not(z3.And(_z(_g_digits(s, 0, 4)), s.number(0, 4) < YEAR_MIN)))

        def ask(name, conds, describe=None):
            solver.push()
            for c in conds:
                if c is False:
                    solver.pop()
                    res['queries'] += 1
                    return
                if c is not True:
                    solver.add(c)
            q0 = time.time()
            r = str(solver.check())
            res['solver_s'] += time.time() - q0
            res['queries'] += 1
            if n <= CROSS_NMAX:
                cross.decide(solver, r, res, '%s n=%d %s' % (D, n, name))
            if r == 'sat':
                res['cex'].append({'ob': name, 's': s.concrete(solver.model())})
            elif r != 'unsat':
                res['unknown'].append(name)
            solver.pop()

        for level in (1, 2):
            ex = Explorer(solver)

            def body():
                del shims.LENIENT[:]
                obj = factories.datatype_factory(D, s, version, level)
                return obj, obj.to_er7(dict(STD))

            for pc, (kind, val) in ex.run_all(body):
                res['paths'] += 1
                lenient = list(shims.LENIENT)
                if kind == 'raised' and isinstance(val, shims.LenientAccept):
                    # a library function accepted a spelling outside its documented canonical form: STRICT/TOLERANT accept,
                    # the rendered text is not modelled.  Outside the HL7 grammar by construction.
                    res['lenient_paths'] += 1
                    if not exclude:
                        ask('A1', pc + [Not(G)])
                    elif D in ('DT', 'TM', 'DTM') and level == 1:
                        # the recorded family for dates and times is "strptime tolerates blanks / odd characters inside a string
                        # of canonical LENGTH"; a string made of digits, '.', '+', '-' only that is accepted through a lenient
                        # reading is something else (e.g. a fraction point after 4 digits) and is reported
                        plain = And(*[cin(c, PLAIN) for c in s.chars]) if n else True
                        ask('A1', pc + [Not(G), plain])
                    continue
                numeric = D in ('SI', 'NM')
                canon = _canonical_numeric(D, s) if numeric else True
                if numeric and lenient and exclude:
                    continue     # the path relied on a lenient reading of int()/Decimal() (sign, ...): recorded family
                if level == 1:
                    if kind == 'ok':
                        obj, out = val
                        ask('A1', pc + ([canon] if exclude else []) + [Not(G)])
                        ask('R1', pc + [canon, Not(_same(out, s))])
                        if numeric:
                            ask('M1', pc + [canon, n > {'SI': 4, 'NM': 16}[D]])
                    else:
                        too_long = numeric and type(val).__name__ == 'MaxLengthReached' and n > {'SI': 4, 'NM': 16}.get(D, 10 ** 9)
                        if not isinstance(val, ValueError) and not too_long:
                            # any other exception type out of the STRICT factory is reported with the path's witness
                            ask('X:%s' % type(val).__name__, pc)
                        ask('A2', pc + [G])
                else:
                    if kind == 'raised':
                        ask('T1:%s' % type(val).__name__, pc)
                    else:
                        obj, out = val
                        if numeric and type(obj).__name__ in ('SI', 'NM') and exclude:
                            ask('T1', pc + [canon, Not(_same(out, s))])      # re-rendering of non-canonical numerics: recorded family
                        else:
                            ask('T1', pc + [Not(_same(out, s))])
            res['queries'] += ex.queries
            res['solver_s'] += ex.solver_s
    except Unsupported as e:
        res['unsupported'] = str(e)
    except Exception as e:   # noqa
        import traceback
        res['error'] = '%s: %s' % (type(e).__name__, e)
        res['traceback'] = traceback.format_exc()[-2000:]
    res['wall_s'] = round(time.time() - t0, 2)
    return res


def _canonical_numeric(D, s):
    """plain decimal without sign '+', without redundant leading zeros"""
    from pysym import And, Or, Not
    from pysym.pstr import ceq
    n = len(s)
    if n == 0:
        return True
    first = 1 if n > 1 else 0
    # no leading '+', and not a leading zero followed by another digit (after an optional '-')
    c = [Not(ceq(s.chars[0], 43))]
    for start in (0, 1):
        if n > start + 1:
            lead = And(ceq(s.chars[start], 48), s.is_digit(start + 1))
            if start == 1:
                lead = And(ceq(s.chars[0], 45), lead)
            c.append(Not(lead))
    return And(*c)


def _z(x):
    import z3
    return z3.BoolVal(x) if isinstance(x, bool) else x


def _same(out, s):
    """z3 condition: the rendered text equals the input text"""
    from pysym import SymStr, And, Or, Not
    from pysym.pstr import PStr, ceq
    import z3
    if isinstance(out, str):
        return s.eq_expr(out)
    if isinstance(out, PStr):
        return out.eq_expr(s)
    if isinstance(out, SymStr):
        slots = out.slots
        if all(g is True for g, _ in slots):
            if len(slots) != len(s):
                return False
            return And(*[ceq(c, d) for (_, c), d in zip(slots, s.chars)])
        # guarded slots: equal iff the number of present slots is len(s) and the j-th present one equals s[j]
        n = len(s)
        conds = []
        rank = z3.IntVal(0)
        total = z3.IntVal(0)
        for g, c in slots:
            gz = z3.BoolVal(g) if isinstance(g, bool) else g
            for j in range(n):
                conds.append(z3.Implies(z3.And(gz, rank == j), ceq(c, s.chars[j]) if not isinstance(ceq(c, s.chars[j]), bool) else z3.BoolVal(ceq(c, s.chars[j]))))
            conds.append(z3.Implies(gz, rank < n))
            rank = rank + z3.If(gz, 1, 0)
        conds.append(rank == n)
        return z3.And(*conds)
    raise TypeError('cannot compare %r' % type(out))


TASK_TYPES = ['DT', 'TM', 'DTM', 'SI', 'NM']


def _e2_values(tier, seed, nproc):
    exclude = known_open('C13-library-leniency')
    nval, disagreements = validate_shims()
    if disagreements:
        return {'status': 'error', 'message': 'shim validation failed (%d of %d): %s' % (len(disagreements), nval, disagreements[:6])}
    tasks = [(D, n, exclude, VERSION[D]) for D in TASK_TYPES for n in range(0, NMAX[D] + 1)]
    tasks += [(D, n, exclude, v) for (D, v) in version_pairs() if v != VERSION[D] for n in range(0, min(NMAX[D], NMAX_OTHER) + 1)]
    tasks.sort(key=lambda t: -t[1])
    with multiprocessing.get_context('fork').Pool(nproc) as pool:
        results = pool.map(_e2_task, tasks, chunksize=1)
    cex, inconclusive, queries, solver_s, paths, lenient = [], [], 0, 0.0, 0, 0
    from pysym import cross
    xs = cross.new_stats()
    for r in results:
        cross.merge(xs, r)
        queries += r['queries']
        solver_s += r['solver_s']
        paths += r['paths']
        lenient += r['lenient_paths']
        key = '%s v%s n=%d' % (r['D'], r['version'], r['n'])
        if 'error' in r:
            return {'status': 'error', 'message': '%s: %s\n%s' % (key, r['error'], r.get('traceback', ''))}
        if 'unsupported' in r:
            inconclusive.append('%s: code not encodable: %s' % (key, r['unsupported']))
        for u in r['unknown']:
            inconclusive.append('%s: %s undecided' % (key, u))
        for c in r['cex']:
            cex.append({'call': '_replay(%r, %r, %r, %r)' % (c['ob'].split(':')[0], r['D'], c['s'], r['version']), 'message': '%s %s' % (key, c['ob'])})
    seen, uniq = set(), []
    for c in cex:
        if c['call'] not in seen:
            seen.add(c['call'])
            uniq.append(c)
    if xs['cross_disagree']:
        return {'status': 'error', 'message': 'two solvers disagree: ' + '; '.join(xs['cross_disagree'][:5])}
    status = 'refuted' if uniq else ('unknown' if inconclusive else 'confirmed')
    return {'status': status, 'queries': queries, 'solver_s': round(solver_s, 2), 'paths': paths, 'confirmed_paths': paths,
            'pieces_total': len(tasks), 'pieces_confirmed': len(tasks) - len({c['message'].rsplit(' ', 1)[0] for c in uniq}) - len(inconclusive),
            'counterexamples': uniq[:60], 'inconclusive': inconclusive[:40],
            'samples': [{'tasks': ['%s n<=%d (v%s), n<=%d in the other versions that define it' % (D, NMAX[D], VERSION[D], min(NMAX[D], NMAX_OTHER))
                                   for D in TASK_TYPES], 'alphabet': ALPHABET, 'paths': paths,
                         'paths_through_lenient_library_behaviour': lenient, 'lenient_family_excluded': exclude,
                         'shim_validation': '%d concrete (datatype, text, level) cases agree with the unmodified library' % nval,
                         'second_solver': ('obligation queries with n<=%d decided again: %d same answer %r, %d not decided within %ds'
                                           % (CROSS_NMAX, xs['cross_agree'], xs.get('cross_by', {}), xs['cross_undecided'], cross.TLIMIT_S))
                         if cross.ENABLED else 'off (thorough tier only)'}]}


# ---- shim validation: the re-executed kernels on CONCRETE strings vs. the unmodified library in a separate interpreter ----------
GRID = {
    'DT': ['', '2020', '202013', '202012', '20200229', '20210229', '20200230', '19000229', '20000229', '2020123', '202001011', '20201301',
           '99991231', '10000101', '2020 1 1', '202011 5', '2020A1', '+2020', '2020\n', '0000', '00000101', '1e3'],
    'TM': ['', '0', '00', '23', '24', '2359', '2360', '235959', '235960', '235961', '000000.1', '000000.1234', '000000.12345', '000000.',
           '12+0000', '12+1400', '12+1401', '12+1359', '12+1460', '12-1200', '12-1201', '12-1159', '12-1300', '12+0500+0500', '1230-0500',
           '123015.5-0500', '12 +0500', '1 2', '12\n', '1:30', '12.5', '120000,1', '1234.56', '123.4', '12345.678', '1.2345'],
    'DTM': ['', '2020', '202001', '20200101', '2020010112', '202001011230', '20200101123015', '20200101123015.1', '20200101123015.1234',
            '20200101123015.12345', '2020+0100', '20200101+1400', '20200101+1401', '20200101-1200', '20200101-1201', '2020010124',
            '202001011260', '20200230', '20200101123015.1234+1400', '20200101123015.1234+0100+0100', '2012+0100+0100', '202001011', '20200101123',
            '20200101 230', '2020\n', '2 20', '20200101123015.', '201307261234.5678', '2020010112345.6'],
    'SI': ['', '0', '1', '0001', '9999', '10000', '00001', '-1', '+5', ' 5', '5 ', '1_0', '1\n', 'a', '1.5', '12345'],
    'NM': ['', '0', '1', '-1', '+1', '1.5', '-0.5', '01', '007.50', '1.', '.5', '1E3', '1e3', 'NaN', 'Infinity', ' 1', '1 ', '1_0', '0.000001',
           '0.0000001', '0.0000000', '0.00000012', '-0.0000001', '0.0000000000000001', '0.00000000000001', '1234567890123456', '12345678901234567', '123456789012345.6', '-123456789012345.6', 'abc', '1.2.3', '--1', '\n1'],
}


def _real_outcomes():
    """outcomes on the unmodified library, computed in a separate plain interpreter"""
    import json
    import os
    import subprocess
    prog = ("import sys, json; sys.path.insert(0, %r); sys.path.insert(0, %r)\n"
            "from harness import c13\n"
            "out = {}\n"
            "for D, items in c13.GRID.items():\n"
            "    for t in items:\n"
            "        for lv in (1, 2):\n"
            "            o, e = c13._accepts(D, t, lv)\n"
            "            out['%%s|%%s|%%d' %% (D, t, lv)] = ['ok', o.to_er7(dict(c13.STD)), type(o).__name__] if o is not None else ['raised', type(e).__name__]\n"
            "print('@@' + json.dumps(out))\n") % (os.environ.get('VP_REPO', '/repo'), os.path.dirname(os.path.dirname(os.path.abspath(__file__))))
    r = subprocess.run(['/venv/bin/python', '-c', prog], capture_output=True, text=True, env=dict(os.environ, PYTHONDONTWRITEBYTECODE='1'))
    for ln in r.stdout.splitlines():
        if ln.startswith('@@'):
            return json.loads(ln[2:])
    raise RuntimeError('real outcomes failed: %s' % r.stderr[-800:])


def validate_shims():
    """run the shimmed, re-executed kernels on concrete strings (no symbolic character: every branch is static) and compare with the
    unmodified library.  Returns (number compared, list of disagreements)."""
    from pysym import loader, shims, SymStr
    from pysym.pstr import PStr
    mods = loader.load()
    factories = mods['hl7apy.factories']
    real = _real_outcomes()
    bad, n = [], 0
    for D, items in GRID.items():
        for t in items:
            for lv in (1, 2):
                n += 1
                del shims.LENIENT[:]
                try:
                    obj = factories.datatype_factory(D, PStr.of(t), VERSION[D], lv)
                    out = obj.to_er7(dict(STD))
                    if isinstance(out, PStr):
                        out = ''.join(chr(c) for c in out.chars)
                    elif isinstance(out, SymStr):
                        out = ''.join(chr(c) for g, c in out.slots if g is True or (not isinstance(g, bool) and _static_true(g)))
                    got = ['ok', out, type(obj).__name__]
                except shims.LenientAccept:
                    got = ['ok', None, None]          # accepted through a lenient reading: only acceptance is compared
                except Exception as e:
                    got = ['raised', type(e).__name__]
                want = real['%s|%s|%d' % (D, t, lv)]
                same = got[0] == want[0] and (got[0] == 'raised' and (got[1] == want[1] or {got[1], want[1]} <= {'ValueError', 'InvalidOperation'})
                                              or got[0] == 'ok' and (got[1] is None or got[1:] == want[1:]))
                if not same:
                    bad.append('%s %r level %d: shimmed %r, real %r' % (D, t, lv, got, want))
    return n, bad


def _static_true(g):
    import z3
    return z3.is_true(z3.simplify(g))


# ---- reference predicates on concrete strings (replay) -----------------------------------------------------------------------
_RE = {
    'DT': r'(\d{4})(\d\d)?(\d\d)?$',
}


def ref_valid(D, text):
    """HL7 lexical definition of D on a concrete string (plain Python, independent of hl7apy)"""
    import calendar

    def date_ok(t):
        if len(t) not in (4, 6, 8) or not t.isascii() or not t.isdigit():
            return False
        y = int(t[:4])
        if y < YEAR_MIN:
            return False
        if len(t) >= 6 and not 1 <= int(t[4:6]) <= 12:
            return False
        if len(t) == 8 and not 1 <= int(t[6:8]) <= calendar.monthrange(y, int(t[4:6]))[1]:
            return False
        return True

    def time_ok(t):
        m = re.match(r'^(\d\d)(?:(\d\d)(?:(\d\d)(?:\.(\d{1,4}))?)?)?$', t, re.A)
        if not m or '\n' in t:
            return False
        h, mi, se = int(m.group(1)), int(m.group(2) or 0), int(m.group(3) or 0)
        return h <= 23 and mi <= 59 and se <= 59

    def split_off(t):
        m = re.match(r'^(.*)([+-])(\d\d)(\d\d)$', t, re.A | re.S)
        if m and '\n' not in t:
            hh, mm = int(m.group(3)), int(m.group(4))
            lim = 14 if m.group(2) == '+' else 12
            if mm <= 59 and (hh < lim or (hh == lim and mm == 0)):
                return m.group(1), True
            return None, False
        return t, True

    if D == 'DT':
        return date_ok(text)
    if D == 'SI':
        return len(text) <= 4 and (text == '' or (text.isascii() and text.isdigit()))
    if D == 'NM':
        return text == '' or (len(text) <= 16 and re.match(r'^[+-]?\d+(\.\d+)?$', text, re.A) is not None and '\n' not in text)
    body, ok = split_off(text)
    if not ok:
        return False
    if D == 'TM':
        return time_ok(body)
    if len(body) <= 8:
        return date_ok(body)
    return date_ok(body[:8]) and time_ok(body[8:])


def _accepts(D, text, level, version=None):
    from hl7apy.factories import datatype_factory
    try:
        return datatype_factory(D, text, version or VERSION[D], level), None
    except Exception as e:
        return None, e


MAXLEN = {'SI': 4, 'NM': 16}


def canonical_numeric(text):
    """plain decimal form without '+' and without redundant leading zeros"""
    return re.match(r'^-?(0|[1-9]\d*)(\.\d+)?$', text, re.A) is not None and '\n' not in text


def _same_number(a, b):
    from decimal import Decimal
    try:
        return Decimal(a) == Decimal(b)
    except Exception:
        return False


def _replay(ob, D, text, version=None):
    """True iff the obligation holds for this concrete text on the unmodified library"""
    numeric = D in MAXLEN
    if ob in ('A1', 'A2', 'R1', 'X', 'M1'):
        obj, exc = _accepts(D, text, 1, version)
        if ob == 'A1':
            return obj is None or ref_valid(D, text)
        if ob == 'A2':
            return not ref_valid(D, text) or obj is not None
        if ob == 'X':
            return exc is None or isinstance(exc, ValueError) or \
                (numeric and type(exc).__name__ == 'MaxLengthReached' and len(text) > MAXLEN[D])
        if ob == 'M1':
            return not (numeric and len(text) > MAXLEN[D]) or type(exc).__name__ == 'MaxLengthReached' or \
                (exc is not None and not canonical_numeric(text))
        if obj is None:
            return True
        out = obj.to_er7(dict(STD))
        if numeric and not canonical_numeric(text):
            return text == '' or _same_number(out, text)
        return out == text
    if ob == 'T1':
        obj, exc = _accepts(D, text, 2, version)
        if exc is not None:
            return False
        out = obj.to_er7(dict(STD))
        if numeric and type(obj).__name__ == D and not canonical_numeric(text):
            return text == '' or _same_number(out, text)     # a non-canonical numeric is kept as the same number
        return out == text
    raise ValueError(ob)


# ---- G: the boundary grid through the unmodified library (E1, symbolic index) -------------------------------------------------------
# witnesses of the recorded finding C13-library-leniency (skipped while that finding is listed as open)
FAMILY = {('DT', '202011 5'), ('DT', '2020 1 1'),
          ('SI', '00001'), ('SI', '-1'), ('SI', '+5'), ('SI', ' 5'), ('SI', '5 '), ('SI', '1_0'), ('SI', '1\n'),
          ('NM', '1.'), ('NM', '.5'), ('NM', '1E3'), ('NM', '1e3'), ('NM', 'NaN'), ('NM', 'Infinity'), ('NM', ' 1'), ('NM', '1 '), ('NM', '1_0'),
          ('NM', '\n1')}
GRID_ITEMS = [(D, t, v) for (D, v) in version_pairs() for t in GRID[D]]
NGRID = len(GRID_ITEMS)


def grid_ok(i, trace=None):
    D, t, v = GRID_ITEMS[i]
    if (D, t) in FAMILY and known_open('C13-library-leniency'):
        return True
    bad = [ob for ob in ('A1', 'A2', 'R1', 'T1', 'X', 'M1') if not _replay(ob, D, t, v)]
    if trace is not None:
        trace.append(explain('_replay(%r, %r, %r, %r)' % ('grid', D, t, v)) + ' ; failing obligations: %r' % bad)
    return not bad


def _bs(p, n):
    lo, hi = 0, n - 1
    while lo < hi:
        mid = (lo + hi) // 2
        if p <= mid:
            hi = mid
        else:
            lo = mid + 1
    return lo


def _ob_grid(i: int) -> bool:
    """
    pre: 0 <= i < NGRID
    pre: in_part(i)
    post: _
    """
    i = _bs(i, NGRID)
    with concrete():
        reset_defaults()
        return grid_ok(i)


def _witness_leniency():
    """recorded finding: fails as long as any of the listed witnesses is still accepted / re-rendered"""
    return all(all(_replay(ob, D, t) for ob in ('A1', 'R1', 'T1')) for (D, t) in sorted(FAMILY))


def explain(call):
    m = re.match(r'(\w+)\((.*)\)$', call, re.S)
    a, kw = eval('(lambda *a, **k: (a, k))(%s)' % m.group(2))
    if m.group(1) == '_ob_grid':
        tr = []
        grid_ok(a[0] if a else kw['i'], tr)
        return '\n'.join(tr)
    if m.group(1) == '_witness_leniency':
        return '\n'.join(explain('_replay(%r, %r, %r)' % ('A1', D, t)) for (D, t) in sorted(FAMILY))
    if m.group(1) == '_replay':
        ob, D, text = a[:3]
        version = a[3] if len(a) > 3 else VERSION[D]
        o1, e1 = _accepts(D, text, 1, version)
        o2, e2 = _accepts(D, text, 2, version)
        return '%s %s %r: HL7-valid=%s ; STRICT -> %s ; TOLERANT -> %s' % (
            ob, D, text, ref_valid(D, text),
            ('accepted, to_er7()=%r' % o1.to_er7(dict(STD))) if o1 is not None else 'raised %s: %s' % (type(e1).__name__, e1),
            ('%s, to_er7()=%r' % (type(o2).__name__, o2.to_er7(dict(STD)))) if o2 is not None else 'raised %s: %s' % (type(e2).__name__, e2))
    return ''


SPEC = {
    'property': 'C13',
    'files': ['hl7apy/utils.py', 'hl7apy/factories.py', 'hl7apy/base_datatypes.py'],
    'functions_encoded': ['hl7apy.factories.datatype_factory/date_factory/timestamp_factory/datetime_factory',
                          'hl7apy.utils.get_date_info/get_timestamp_info/get_datetime_info/_split_offset/_get_date_format/'
                          '_get_timestamp_format/_datetime_obj_factory', 'hl7apy.base_datatypes.DateTimeDataType/DT/TM/DTM (__init__, to_er7)', 'hl7apy.factories.numeric_factory/sequence_id_factory',
                          'hl7apy.base_datatypes.BaseDataType.__init__/to_er7, NumericDataType, NM, SI'],
    'assumptions': ['the three modules are re-executed from their current source with "<literal>".format(...) -> __sym_format and the '
                    'globals re / datetime / len bound to pysym shims; the shims take their data from CPython (strptime regexes from '
                    '_strptime.TimeRE) and are validated against the real functions on every run',
                    'strptime on a fixed-width all-digit spelling is modelled exactly (field ranges, days in month, leap years); any '
                    'other spelling that CPython\'s regex accepts is flagged "lenient" (recorded family) and its value is not modelled',
                    'alphabet %r; lengths per datatype %r; version %r; years >= %d' % (ALPHABET, NMAX, VERSION, YEAR_MIN)],
    'outside': ['non-ASCII digits; strings longer than the bounds; locale effects; years below %d' % YEAR_MIN],
    'stubs': ['re.search (offset regex)', 'datetime.strptime / strftime', 'str.format on literals', 'len'],
    'obligations': [
        {'name': 'G.grid', 'fn': '_ob_grid', 'parts': 8, 'cond_timeout': 600, 'path_timeout': 60,
         'bound': 'the %d (boundary literal, version) pairs of GRID x every version that has the datatype (hour 24, minute/second 60, +1400/+1401, -1200/-1201, Feb 29, 4 vs 5 fraction digits, '
                  'repeated offset text, signs, blanks, underscores, exponents, over-long values) through the unmodified library: A1, A2, '
                  'R1, T1, M1' % NGRID},
        {'name': 'E2.values', 'engine': 'E2', 'worker': '_e2_values', 'timeout': 7200,
         'bound': 'A1, A2, R1, T1 for %s, every string of each length up to %r over the alphabet in version %s, and up to length %d in every '
                  'other version that defines the datatype' % (TASK_TYPES, {d: NMAX[d] for d in TASK_TYPES}, VERSION['DT'], min(NMAX_OTHER, max(NMAX.values())))},
    ],
}
