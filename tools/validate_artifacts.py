#!/usr/bin/env python3
"""Validate MANIFEST.json and evidence/*.json against the schemas in /root/.vp (run with python3-vt: needs jsonschema)."""
import glob
import json
import os
import sys

import jsonschema

VERIF = os.path.dirname(os.path.dirname(os.path.abspath(__file__)))
VP = '/root/.vp'


def main():
    bad = 0
    m = json.load(open(os.path.join(VERIF, 'MANIFEST.json')))
    jsonschema.validate(m, json.load(open(os.path.join(VP, 'MANIFEST.schema.json'))))
    ev_schema = json.load(open(os.path.join(VP, 'EVIDENCE.schema.json')))
    claimed = {c['property_id']: c for c in m['checks']}
    props = [json.loads(l)['id'] for l in open(os.path.join(VERIF, 'properties.jsonl')) if l.strip()]
    na = {e['property_id'] if isinstance(e, dict) else e for e in m.get('not_applicable', [])}
    for p in props:
        if p not in claimed and p not in na:
            print('property %s neither claimed nor listed as not applicable' % p)
            bad += 1
    for pid, c in sorted(claimed.items()):
        path = os.path.join(VERIF, c['evidence_file'])
        if not os.path.exists(path):
            print('%s: evidence file missing' % pid)
            bad += 1
            continue
        e = json.load(open(path))
        try:
            jsonschema.validate(e, ev_schema)
        except jsonschema.ValidationError as err:
            print('%s: evidence invalid: %s' % (pid, err.message[:200]))
            bad += 1
            continue
        if e.get('level') != c['level_claimed']['category']:
            print('%s: evidence level %r != claimed %r' % (pid, e.get('level'), c['level_claimed']['category']))
            bad += 1
        print('%s ok: level=%s tier=%s exhaustive=%s' % (pid, e.get('level'), e.get('tier', e.get('coverage', {}).get('tier')),
                                                       e.get('coverage', {}).get('exhaustive')))
    print('problems: %d' % bad)
    return 1 if bad else 0


if __name__ == '__main__':
    sys.exit(main())
