import sys, time; sys.path.insert(0,'/verif')
import importlib
mod = importlib.import_module(sys.argv[1]); fname=sys.argv[2]
fn=getattr(mod,fname); target, alphabet = mod.TABLE[fname]; n=len(alphabet); ninit=mod.NINIT[target]
bad=0; t0=time.time(); tot=0; kinds={}
for init in range(ninit):
  for strict in (False, True):
    for a1 in range(n):
        for a2 in range(n):
            tot+=1
            try: ok = fn(init,strict,a1,a2)
            except Exception as e: ok=False; print('EXC', fn.__name__, init,strict,a1,a2, repr(e)[:200])
            if not ok:
                bad+=1
                ex = mod.explain('%s(%d,%s,%d,%d)'%(fn.__name__,init,strict,a1,a2))
                lines = ex.strip().split('\n')
                key = [l for l in lines if l.startswith('   ') and l[3].isupper()]
                key = (key[0] if key else lines[-1])[:110] + ' @@ ' + [l for l in lines if l[:1].isdigit()][-1][:60]
                if key not in kinds:
                    kinds[key]=0
                    if len(kinds)<=8: print(ex); print('---')
                kinds[key]+=1
print(mod.__name__, fn.__name__,'n',n,'total',tot,'bad', bad, 'secs', round(time.time()-t0,1))
for k,v in sorted(kinds.items(), key=lambda kv:-kv[1])[:40]: print('   ',v,k)
