#!/bin/sh
# usage: tools/run_tier.sh <quick|thorough> [property ...]   - runs the registered command of each property, one after the other,
# and prints one summary line per property (exit code, wall time, last line of the check's output)
tier=${1:-quick}; shift
props=${*:-C17 C18 C13 C04 C05 C11 C14 C16 C19 C02 C07 C08 C06 C01 C15 C03 C09 C10 C12}
cd "$(dirname "$0")/.."
mkdir -p tier_logs
for p in $props; do
  s=$(date +%s); ./check $p --tier $tier > tier_logs/${tier}_$p.log 2>&1; rc=$?; e=$(date +%s)
  echo "$p rc=$rc $((e-s))s $(tail -1 tier_logs/${tier}_$p.log | cut -c1-170)"
done
echo ALLDONE
