#!/venv/bin/python
"""Validate seeded mutants and run the registered checks against them.

  tools/seedcheck.py validate <ID>...     clean tree: demo exits 0;  patch applied: test suite passes and demo exits 1
  tools/seedcheck.py detect   <ID>... [--tier quick] [--only ob1,ob2]
                                          apply patch to /repo, run ./check <property>, undo; prints whether a
                                          VIOLATION was reported; result is stored in seeded/<ID>/meta.json

Mutants are applied to /repo with `git apply` and ALWAYS undone with `git checkout -- .` (never committed).
"""
import json
import os
import re
import subprocess
import sys
import time

VERIF = os.path.dirname(os.path.dirname(os.path.abspath(__file__)))
REPO = os.environ.get('SEED_REPO', '/repo')     # validation may use a scratch worktree; detection uses /repo unless told otherwise
PY = '/venv/bin/python'


def sh(cmd, **kw):
    return subprocess.run(cmd, shell=isinstance(cmd, str), capture_output=True, text=True, **kw)


def clean():
    sh('git -C %s checkout -- .' % REPO)
    assert sh('git -C %s status --porcelain --untracked-files=no' % REPO).stdout.strip() == '', 'repo not clean'


def load_meta(d):
    p = os.path.join(d, 'meta.json')
    if os.path.exists(p):
        return json.load(open(p))
    return {}


def save_meta(d, meta):
    json.dump(meta, open(os.path.join(d, 'meta.json'), 'w'), indent=1, sort_keys=True)


def demo(d):
    r = sh([PY, os.path.join(d, 'demo.py')], env=dict(os.environ, PYTHONPATH=REPO, PYTHONDONTWRITEBYTECODE='1'), cwd='/tmp',
           timeout=300)
    return r.returncode, (r.stdout + r.stderr)[-600:]


def tests():
    for attempt in range(3):
        # private network namespace: the MLLP tests bind fixed ports
        r = sh("unshare -n sh -c 'ip link set lo up; cd %s && %s -m pytest -q -p no:cacheprovider --timeout=900 2>&1 | tail -3'" % (REPO, PY), timeout=900)
        if 'Address already in use' not in r.stdout and ' error' not in r.stdout:
            break
        time.sleep(5)
    m = re.search(r'(\d+) passed', r.stdout)
    failed = re.search(r'(\d+) failed', r.stdout)
    return int(m.group(1)) if m else 0, int(failed.group(1)) if failed else 0, r.stdout[-300:]


def validate(sid):
    d = os.path.join(VERIF, 'seeded', sid)
    meta = load_meta(d)
    clean()
    rc0, out0 = demo(d)
    ap = sh('git -C %s apply %s' % (REPO, os.path.join(d, 'patch.diff')))
    if ap.returncode != 0:
        print(sid, 'PATCH DOES NOT APPLY', ap.stderr[-300:])
        clean()
        return False
    try:
        passed, failed, tout = tests()
        rc1, out1 = demo(d)
    finally:
        clean()
    ok = rc0 == 0 and rc1 == 1 and passed == 353 and failed == 0
    meta.update({'id': sid, 'property': sid.split('-')[0], 'validated': ok,
                 'validation': {'demo_rc_clean': rc0, 'demo_rc_mutant': rc1, 'tests_passed_with_mutant': passed,
                                'tests_failed_with_mutant': failed,
                                'ran': ['PYTHONPATH=/repo /venv/bin/python demo.py (clean tree)',
                                        'git -C /repo apply patch.diff',
                                        'cd /repo && /venv/bin/python -m pytest -q -p no:cacheprovider --timeout=900',
                                        'PYTHONPATH=/repo /venv/bin/python demo.py (mutant)', 'git -C /repo checkout -- .']}})
    notes = os.path.join(d, 'notes.txt')
    if os.path.exists(notes):
        meta['needs_to_manifest'] = open(notes).read().strip()
    save_meta(d, meta)
    print(sid, 'VALID' if ok else 'INVALID', 'demo clean rc=%s mutant rc=%s tests %s passed %s failed' % (rc0, rc1, passed, failed))
    if not ok:
        print('   clean demo:', out0[-200:].replace('\n', ' | '))
        print('   mutant demo:', out1[-200:].replace('\n', ' | '))
        print('   tests:', tout.replace('\n', ' | '))
    return ok


def detect(sid, tier, only, prop=None):
    d = os.path.join(VERIF, 'seeded', sid)
    meta = load_meta(d)
    prop = prop or sid.split('-')[0]
    clean()
    ap = sh('git -C %s apply %s' % (REPO, os.path.join(d, 'patch.diff')))
    assert ap.returncode == 0, ap.stderr
    t0 = time.time()
    try:
        cmd = '%s/check %s --tier %s --no-evidence' % (VERIF, prop, tier) + (' --only %s' % only if only else '')
        r = sh(cmd, timeout=7200, cwd=VERIF, env=dict(os.environ, VP_REPO=REPO))
    finally:
        clean()
    viol = [ln for ln in r.stdout.splitlines() if ln.startswith('VIOLATION')]
    first = ''
    if viol:
        i = r.stdout.index(viol[0])
        first = r.stdout[i:i + 900]
    rec = {'check': cmd.replace(VERIF + '/', './'), 'exit': r.returncode, 'violations': len(viol), 'wall_s': round(time.time() - t0, 1),
           'first': first}
    meta.setdefault('detection', {})['%s:%s%s' % (prop, tier, ':' + only if only else '')] = rec
    meta['caught'] = bool(meta.get('caught')) or (r.returncode == 1 and bool(viol))
    save_meta(d, meta)
    print(sid, prop, tier, 'exit', r.returncode, 'violations', len(viol), '%.0fs' % (time.time() - t0))
    if first:
        print('   ' + first[:500].replace('\n', '\n   '))
    else:
        print('   ' + r.stdout[-400:].replace('\n', '\n   '))


def main():
    args = sys.argv[1:]
    mode = args[0]
    tier, only, prop = 'quick', None, None
    ids = []
    it = iter(args[1:])
    for a in it:
        if a == '--tier':
            tier = next(it)
        elif a == '--only':
            only = next(it)
        elif a == '--prop':
            prop = next(it)
        else:
            ids.append(a)
    for sid in ids:
        if mode == 'validate':
            validate(sid)
        else:
            detect(sid, tier, only, prop)


if __name__ == '__main__':
    main()
