"""Regenerate MANIFEST.json from the table below (python3 -m vlib.mkmanifest)."""
import json
import os

VERIF = os.path.dirname(os.path.dirname(os.path.abspath(__file__)))

E1 = ('CrossHair 0.0.110 (symbolic execution of the real hl7apy code, z3 deciding every branch); verdict per '
      'partition piece is "Confirmed over all paths" or a replayed counterexample')

CHECKS = {
    'C15': dict(
        technique='solver-based: CrossHair/z3 symbolic execution of parser._split_msh/get_message_*/parse_message on '
                  'fully symbolic header strings and symbolically chosen mutations; bounded exhaustive',
        text='Bounded model checking of the real parser entry points: for every string t up to the stated length '
             '(7 quick / 8 thorough, every character value) get_message_type/get_message_info("MSH"+t) and (shorter t) '
             'parse_message+to_er7+validate either return or raise an HL7apyException (ValueError under STRICT); the same '
             'for every single-position truncate/delete/duplicate/CR-insert mutation of fixed valid messages and a '
             'catalogue of garbled names. Exhaustive inside the bound, nothing claimed outside it.',
        note='Trusted: CrossHair\'s model of str/re/dict (every counterexample is replayed on plain CPython before it is '
             'reported); z3. Bounds: header length, the listed messages, one mutation at a time.',
        ref='DESIGN.md §3 C15'),
    'C02': dict(
        technique='solver-based: CrossHair/z3 exhaustion of symbolic table-row indices through the real Segment/Field/parser '
                  'code (all rows of all 12 versions) + z3 table obligations over ground facts from the live tables',
        engine='crosshair-e1 + z3-e3',
        text='Every one of the 23,111 field rows and 11,765 component/subcomponent rows of the 12 versions is driven through '
             'the real code (set by name -> encode -> count separators -> parse -> read back by name) with the row index '
             'symbolic and exhausted by CrossHair/z3; every segment entry and complex datatype is instantiated; Z-segments and '
             'varies-tailed segments are checked for every index pair i<j up to 24 (96 thorough) beyond the defined count; every field of '
             'type varies is written component by component (j<=4, whole or by subcomponent text) in 4 ways and parsed back. '
             'Independently z3 decides, per segment/datatype table, that child numbers are strictly increasing (fields) / equal '
             'to ordinal+1 (components). Exhaustive over the finite table domain, bounded for open-ended indices.',
        note='Per row the solver contributes exhaustion, not abstraction (each row is a distinct dict key); the library runs '
             'concretely on the row. E3 assumes the generic code depends on a row only through (ordinal, name, number, datatype) '
             '- exercised by replaying any reported row. TOLERANT level, plain-text values.',
        ref='DESIGN.md §3 C02'),
    'C09': dict(
        technique='solver-based: CrossHair/z3 exhaustion of a symbolic bounded operation history on real hl7apy elements, '
                  'compared step by step with a list reference model',
        text='Bounded model checking over operation histories: every history of length <=2 over the full operation '
             'alphabet (set by name/long name, add, add_<child>, proxy[i]=, del by name/index/children position, remove, copy, assign element, '
             'assign base datatype object, nested set) '
             'and every history of length 3 over the core alphabet (thorough: length 3 over the full alphabet) on a PID '
             'segment, an ADT_A01 message and a PID_5 field, from 2-3 initial states; after every step the encoding must equal the '
             'reference list model\'s. Exhaustive inside the bound (CrossHair "Confirmed over all paths" per piece).',
        note='Action indices are symbolic; z3 enumerates/exhausts the finite action space, the library runs concretely per '
             'path (a history of small integers leaves nothing to abstract). Trusted: reference model/encoder in '
             'harness/hist.py, CrossHair, z3. Bound: history length, the listed children, TOLERANT, v2.5.',
        ref='DESIGN.md §3 C09'),
    'C10': dict(
        technique='solver-based: CrossHair/z3 exhaustion of symbolic bounded histories (incl. refused operations and '
                  're-attachment) with a tree-consistency observer after every step',
        text='Bounded model checking over histories of length <=2 (thorough: full alphabet, plus length 3 over selected '
             'operations) on a segment (inside a message), a message and a field, both validation levels symbolic: after '
             'EVERY operation, accepted or refused, parent pointers, single listing, list/by-name index/proxy/len/iter/in/[] '
             'agreement and one version + one level per tree are checked by an outside observer.',
        note='Same engine and trusted base as C09; the observer reads ElementList.list/indexes/traversal_indexes and '
             'Element._parent without writing.',
        ref='DESIGN.md §3 C10'),
    'C12': dict(
        technique='solver-based: CrossHair/z3 exhaustion of symbolic bounded histories whose operations may be refused; '
                  'before/after snapshot comparison on every raising call',
        text='Bounded model checking: for every history of length <=2 (thorough: full alphabet and length 3) drawn from '
             'accepted and refusable operations (wrong class, wrong name, other version, other level, cardinality, invalid '
             'value, absent index, datatype change on populated element, replacement by each of those), whenever a call '
             'raises, the target, the second element and the enclosing message encode and list exactly the same children as '
             'before, and the offered child is not left half-attached.',
        note='Same engine and trusted base as C09/C10. Snapshot = to_er7() + identity listing of children, recursively.',
        ref='DESIGN.md §3 C12'),
}


ALL = {
    'C01': dict(
        technique='solver-based: CrossHair/z3 symbolic execution of the real parser and encoder on a fully symbolic leaf string; '
                  'CrossHair/z3 exhaustion of symbolic shape parameters; z3 table obligation on datatype names',
        engine='crosshair-e1 + z3-e3',
        text='Bounded model checking of parse->encode identity: (G) one fully symbolic canonical leaf (every string up to 2, '
             'thorough 3, characters) at symbolically chosen positions of 12 segment/field/component/message skeletons through the '
             'real parse_* and to_er7; (S) canonical text from a reference builder for every two-field shape (token, repetitions, '
             'component, subcomponent) over a panel of segments of all versions, alone and inside a message with find_groups '
             'on/off; (W) every withdrawn field number; (T) z3 over all FIELDS/DATATYPES rows for unknown datatype names. '
             'Single-position round trips for ALL rows are part of C02.',
        note='Composition of the per-leaf and per-shape results into arbitrary canonical messages is an assumption (stated in '
             'DESIGN.md). Leaves longer than the bound are outside (E2 leaf lemma where built). TOLERANT, default delimiters.',
        ref='DESIGN.md §3 C01'),
    'C03': dict(
        technique='solver-based: CrossHair/z3 exhaustion of symbolically chosen segment-line sequences through the real '
                  'parse_message / to_er7, compared with a reference leaf extractor',
        text='Bounded model checking: 4 message panels (ADT_A01 2.5, ORU_R01 2.3, Z-message, OML_O33 2.7) x every sequence of up '
             'to 3 (thorough 4) lines from pools of 6-15 lines (in-structure, nested, foreign, Z, repeated, extra fields) x '
             'find_groups on/off: either HL7apyException or same segment names in order and same non-empty leaves per segment.',
        note='Line choices symbolic and exhausted; each message then runs concretely. TOLERANT only (the property says so).',
        ref='DESIGN.md §3 C03'),
    'C04': dict(
        technique='solver-based: CrossHair/z3 exhaustion of symbolic (structure, instance kind, mutation, target) through the real '
                  'validator, with purity / determinism / report-consistency assertions on every case',
        text='Bounded model checking of validate(): conforming instances from a reference builder (required-only and all-children) '
             'must validate; single-point mutations (drop required, repeat non-repeatable, unknown child, wrong datatype, foreign '
             'segment) must fail with an error naming the element; on every case validate() leaves to_er7() unchanged, is '
             'deterministic, is_valid == no errors, the raising form raises errors[0], the report file lists exactly the errors '
             'and warnings (report given as a stream and as a path, read while the raised error is alive). Quick: ~300 segments and 36 '
             'structures; thorough: all segments, 172 structures. A choice group is instantiated by one alternative. History: for 351 '
             '(structure, synthesised profile) cases x both orders, a validation against the standard tables and one against the profile '
             'in one forked process give what each gives alone in a fresh process.',
        note='Builder values are one token per base datatype; structures outside the slice are outside the claim.',
        ref='DESIGN.md §3 C04'),
    'C05': dict(
        technique='solver-based: CrossHair/z3 exhaustion of symbolic (typed position, literal) pairs and of bounded histories run '
                  'under both validation levels',
        text='Bounded model checking: 19 typed positions x 44 valid/invalid literals, 17 API attempts, and every history of length <=2 over the C09 '
             'alphabet on a segment, a message and a field: whatever STRICT accepts TOLERANT accepts with the same encoding and '
             'report, and a STRICT-accepted element draws no validator error other than missing required children.',
        note='Deep lexical side of DT/TM/DTM/NM/SI is C13. v2.5.',
        ref='DESIGN.md §3 C05'),
    'C06': dict(
        technique='solver-based: the real TextualDataType escape kernel executed on bounded symbolic strings (guarded bit-vector '
                  'slots, engine pysym) with symbolic delimiters; z3 decides delimiter-safety, tokenisation, idempotence and fixpoint '
                  'per length; CrossHair/z3-exhausted cross-check on the unmodified class',
        engine='pysym-e2 + crosshair-e1',
        text='Bounded model checking of the escape kernel itself: for every distinct kernel x version class, 7 escape characters, '
             'every value of length 0..16 (thorough 0..32) over printable ASCII and EVERY assignment of pairwise distinct punctuation '
             'marks to the 4-5 delimiter roles (symbolic), z3 shows: no delimiter in the output, the output tokenises into ordinary '
             'characters and ESC-letter-ESC (modulo the recorded dangling-escape family), escaping again changes nothing, well-formed '
             'delimiter-free input is unchanged. The unmodified class with the real re module is cross-checked on every string of '
             'length <=4 over a 12-character alphabet, assignment through datatype objects keeps separator counts, and for every ordered '
             'pair of 30 encodings run in a fresh process the second result equals the one it gives alone. Thorough: obligation queries '
             'up to n=12 are decided a second time by cvc5.',
        note='The classes are the real ones; only the name `re` in the two base_datatypes modules is bound to a shim that evaluates '
             'the look-around regex (as built by the code, parsed by CPython) on guarded slots. Every model is replayed on the '
             'unmodified library. Highlights, non-ASCII and multi-letter escapes are outside.',
        ref='DESIGN.md §3 C06'),
    'C07': dict(
        technique='solver-based: CrossHair/z3 exhaustion of every equality pattern x blank class x character pool of the 5-6 header '
                  'characters through parser._split_msh/get_message_info; CrossHair/z3 exhaustion of all role assignments over a '
                  'candidate set at message level',
        text='(H) get_message_info returns exactly the given characters or raises InvalidEncodingChars iff two are equal / one is '
             'blank / a fifth is given below 2.7 - for every equality pattern of the 5/6 characters x which class is blank x 3 '
             'punctuation pools (fully symbolic characters did not confirm, see DESIGN.md §1); (M) every injective assignment '
             'of 5 and 6 roles to a 6-character (thorough 8) candidate set x 4 versions: Message(..., encoding_chars) encodes '
             'exactly the reference text, encoding_chars reads back on the message and on every descendant, to_mllp, and '
             'parse_message round trip.',
        note='Fully symbolic delimiters cannot pass str.split under CrossHair: message level uses a finite candidate set.',
        ref='DESIGN.md §3 C07'),
    'C08': dict(
        technique='solver-based: CrossHair/z3 exhaustion of symbolic instance choices (presence bits, repetition counts) of message '
                  'structures through the real group-finding parser, compared with a reference expander',
        text='Bounded model checking: 44 structures (thorough 400, seeded) x 576 instances each, TOLERANT and STRICT: every parsed element is a declared '
             'child of its parent, flattening gives the input sequence, find_groups=False encodes identically, and for structures '
             'with unique segment names the tree equals the reference tree and has no structural validation error. Determinism: for ALL '
             '3,904 ordered pairs of versions that define a same-named group of one message structure with different segments, the second '
             'version parsed after the first in one forked process gives the tree it gives in a fresh process.',
        note='Instances: first 6 optional children, up to 2 repeated groups whose first member is required and non-repeatable.',
        ref='DESIGN.md §3 C08'),
    'C11': dict(
        technique='solver-based: CrossHair/z3 exhaustion of symbolic navigation-chain descriptors on real elements with before/after '
                  'snapshots',
        text='Bounded model checking: ~480 read chains (3 targets x 8 paths incl. an open-ended segment and a varies field x depth<=5 x 4 spellings) x 10 terminal observations x 1-3 '
             'repetitions x 2 levels leave encoding, children tree and validation report unchanged; a write at the end of each '
             'chain creates one element per level at its defined position and a second identical write adds nothing.',
        note='v2.5; the 8 listed navigation paths.',
        ref='DESIGN.md §3 C11'),
    'C13': dict(
        technique='solver-based: hl7apy/utils.py, factories.py and base_datatypes.py re-executed from source on bounded symbolic '
                  'strings (engine pysym) with a path explorer; z3 decides acceptance-vs-grammar, round trip and TOLERANT '
                  'preservation per path and length; boundary grid through the unmodified library',
        engine='pysym-e2 + crosshair-e1',
        text='Bounded model checking of datatype_factory for DT, TM, DTM, SI, NM: for every string of each length up to 9/17/26/7/18 '
             'over the alphabet 0-9 . + - blank A _ newline E, every feasible path through the real length dispatch, offset regex, '
             'precision, offset range, strptime/strftime, int, Decimal is explored; z3 shows STRICT-accepted => HL7 grammar, grammar => '
             'accepted, accepted => to_er7() == text (canonical numerics), TOLERANT never raises and keeps the text, over-long => '
             'MaxLengthReached - modulo the recorded library-leniency family. datatype_factory dispatches per version: full lengths in '
             'v2.5, lengths up to 6 (thorough: full) in every other version that has the datatype. A boundary grid of 142 literals x every version '
             '(1 451 points) runs through the unmodified library. Thorough: every obligation query is decided a second time (z3 4.8.12 / cvc5).',
        note='strptime/strftime/int/Decimal/re.search are shims fed with CPython\'s own data and validated on every run against the '
             'real functions (260 cases); spellings CPython accepts outside the fixed-width forms are flagged lenient and not '
             'modelled in value; Decimal.__str__ (scientific notation for small magnitudes) is modelled exactly. Years below 1000, non-ASCII digits, longer strings are outside.',
        ref='DESIGN.md §3 C13'),
    'C14': dict(
        technique='solver-based: CrossHair/z3 exhaustion of symbolic table-row indices (ALL rows) through the real name / long-name / '
                  'positional lookup for read, write and delete; z3 decision of the long-name domain',
        engine='crosshair-e1 + z3-e3',
        text='Every field, component and subcomponent row of the 12 versions: all spellings (HL7 name, usable long name, positional '
             'path; upper/lower/alternating case) reach the identical child for read, write and delete; names that designate no '
             'child raise ChildNotFound/ChildNotValid and leave the parent unchanged. Exhaustive over the finite table domain.',
        note='Long names used only where unique, not an attribute name, not a sibling HL7 name (the property\'s restriction).',
        ref='DESIGN.md §3 C14'),
    'C16': dict(
        technique='solver-based: CrossHair/z3 symbolic execution of the real MLLP request handler on a stub connection (symbolic '
                  'body bytes, first-chunk size, truncation point, timeout step, routing case, raw frames)',
        text='Bounded model checking of framing, extraction, routing and failure handling on the sequential path: every 7-bit body up '
             'to 3 (5) bytes, every split of the first recv, every truncation/timeout point of a frame, 8 routing cases with and '
             'without ERR handler, every raw frame up to 5 (6) bytes over {SB,EB,CR,M,|,0xC3} (a handler runs only when the framed bytes '
             'decode, and is given exactly the framed text). N simultaneous clients and real TCP '
             'timing are NOT covered (no encoding of threads/sockets in this technique).',
        note='Stub socket is the environment model (listed in evidence). Concurrency part of C16 is outside the claim.',
        ref='DESIGN.md §3 C16'),
    'C17': dict(
        technique='solver-based: CrossHair/z3 exhaustion of symbolic process defaults (version x level x delimiter set) against a '
                  'corpus of calls with explicit arguments',
        text='Bounded model checking: 12 default versions x 2 levels x 5 delimiter sets x 30 corpus calls give the same observable '
             'signature as under pristine defaults; changing the defaults does not alter 5 kinds of existing elements.',
        note='Corpus in harness/corpus.py; calls outside it are outside the claim.',
        ref='DESIGN.md §3 C17'),
    'C18': dict(
        technique='solver-based: CrossHair/z3 exhaustion of symbolic (structure, profile edit, target, creation path)',
        text='Bounded model checking: profiles synthesised by one edit (identity, tighten, require, forbid, retype, retype inside a '
             'repeated group, retype of one subcomponent) from 41 (131) standard structures x 5 creation paths (parse, traversal, add_*, '
             'parse without group-finding, whole-message assignment) and, for the subcomponent edit, 6 ways of creating the child x '
             'both levels: children take datatype/cardinality from the profile (also when the retyped child is written with a datatype object), validate() follows the profile where it differs '
             'and the identity profile changes nothing; MessageProfileNotFound / LegacyMessageProfile; lower-case names; shipped '
             'iti_21 / old_pharm_h4 profiles.',
        note='One edit per profile; edits of top-level children, of one field of a segment (also inside a repeated group) or of one '
             'subcomponent.',
        ref='DESIGN.md §3 C18'),
    'C19': dict(
        category='exploration',
        technique='solver-based: CrossHair/z3 exhaustion of SERIAL schedules (ordered pairs / triples of corpus calls) - a necessary '
                  'condition of the property; pre-emptive interleavings are outside the technique',
        text='Only the call-boundary part of the schedule space: for every ordered pair and triple of 30 corpus calls of '
             'mixed versions and levels, each schedule in a fresh forked process, the last call returns what it returns when run alone. This detects shared-state '
             'poisoning of the kind fixed in 1.3.5 (#95); it says nothing about context switches inside a call.',
        note='CrossHair has no thread model: interleavings inside a call cannot be encoded. Stated as exploration-level for that reason.',
        ref='DESIGN.md §3 C19'),
}

READY = [l.strip() for l in open(os.path.join(VERIF, 'READY')).read().split()] if os.path.exists(os.path.join(VERIF, 'READY')) else []
for _k in READY:
    if _k in ALL and _k not in CHECKS:
        CHECKS[_k] = ALL[_k]
PLANNED = ['C%02d' % i for i in range(1, 20)]
NOT_APPLICABLE = []


def main():
    checks = []
    for pid in sorted(CHECKS):
        c = CHECKS[pid]
        checks.append({
            'property_id': pid,
            'quick_cmd': './check %s --tier quick' % pid,
            'thorough_cmd': './check %s --tier thorough' % pid,
            'evidence_file': 'evidence/%s.json' % pid,
            'replay_cmd_template': './check %s --replay {path}' % pid,
            'engine': c.get('engine', 'crosshair-e1'),
            'level_claimed': {'category': c.get('category', 'model_checking'), 'text': c['text'], 'design_ref': c['ref']},
            'level_note': c['note'],
            'technique': c['technique'],
        })
    m = {
        'version': 1,
        'setup_cmd': './setup.sh',
        'hooks': {
            'guard': 'HL7APY_VERIF',
            'enable': 'no hooks are compiled into hl7apy: the checks import the unmodified working tree of /repo '
                      '(first on sys.path); HL7APY_VERIF is reserved and unused',
            'baseline_off_cmd': 'cd /repo && /venv/bin/python -m pytest -ra -q -p no:cacheprovider --timeout=900 '
                                '--continue-on-collection-errors',
            'source_commits': [],
            'add_only': True,
        },
        'engines': [
            {'name': 'crosshair-e1', 'path': 'vlib/chworker.py + harness/cNN.py', 'serves_properties': sorted(CHECKS),
             'kind_free_text': E1},
            {'name': 'pysym-e2', 'path': 'pysym/ + harness/c06.py (_e2_escape)', 'serves_properties': [p for p in ('C06', 'C13') if p in CHECKS],
             'kind_free_text': 'the repo\'s string kernels executed on bounded symbolic strings (guarded BV8 slots); obligations are '
                               'z3 queries per length; models replayed on the unmodified library'},
            {'name': 'z3-e3', 'path': 'vlib/fnworker.py + harness/c02.py (_e3_run)', 'serves_properties': ['C02'],
             'kind_free_text': 'z3 queries over ground facts extracted from the live version tables on every run; models are '
                               'replayed through the public API'},
        ],
        'checks': checks,
        'not_applicable': NOT_APPLICABLE + [
            {'property_id': p, 'reason': 'no check registered at this commit (planned with the same technique, see DESIGN.md §3); '
                                         'nothing is claimed for it yet'}
            for p in PLANNED if p not in CHECKS and p not in [n['property_id'] for n in NOT_APPLICABLE]],
        'notes': 'Exit codes of ./check: 0 held on everything explored; 1 VIOLATION (replayed on the real library, not in '
                 'known_findings.json); 2 harness/infrastructure error. fix: commits in /repo are listed in '
                 'known_findings.json as fixed entries.',
    }
    with open(os.path.join(VERIF, 'MANIFEST.json'), 'w') as f:
        json.dump(m, f, indent=1)
    print('MANIFEST.json written: %d checks' % len(checks))


if __name__ == '__main__':
    main()
