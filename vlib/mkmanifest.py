"""Regenerate MANIFEST.json from the table below (python3 -m vlib.mkmanifest)."""
import json
import os

VERIF = os.path.dirname(os.path.dirname(os.path.abspath(__file__)))

E1 = ('CrossHair 0.0.110 (symbolic execution of the real hl7apy code, z3 deciding every branch); verdict per '
      'partition piece is "Confirmed over all paths" or a replayed counterexample')

CHECKS = {
    'C15': dict(
        technique='solver-based: CrossHair/z3 symbolic execution of parser._split_msh/get_message_*/parse_message on '
                  'fully symbolic header strings and symbolically chosen mutations; bounded exhaustive',
        text='Bounded model checking of the real parser entry points: for every string t up to the stated length '
             '(7 quick / 8 thorough, every character value) get_message_type/get_message_info("MSH"+t) and (shorter t) '
             'parse_message+to_er7+validate either return or raise an HL7apyException (ValueError under STRICT); the same '
             'for every single-position truncate/delete/duplicate/CR-insert mutation of fixed valid messages and a '
             'catalogue of garbled names. Exhaustive inside the bound, nothing claimed outside it.',
        note='Trusted: CrossHair\'s model of str/re/dict (every counterexample is replayed on plain CPython before it is '
             'reported); z3. Bounds: header length, the listed messages, one mutation at a time.',
        ref='DESIGN.md §3 C15'),
}

NOT_APPLICABLE = []


def main():
    checks = []
    for pid in sorted(CHECKS):
        c = CHECKS[pid]
        checks.append({
            'property_id': pid,
            'quick_cmd': './check %s --tier quick' % pid,
            'thorough_cmd': './check %s --tier thorough' % pid,
            'evidence_file': 'evidence/%s.json' % pid,
            'replay_cmd_template': './check %s --replay {path}' % pid,
            'engine': c.get('engine', 'crosshair-e1'),
            'level_claimed': {'category': c.get('category', 'model_checking'), 'text': c['text'], 'design_ref': c['ref']},
            'level_note': c['note'],
            'technique': c['technique'],
        })
    m = {
        'version': 1,
        'setup_cmd': './setup.sh',
        'hooks': {
            'guard': 'HL7APY_VERIF',
            'enable': 'no hooks are compiled into hl7apy: the checks import the unmodified working tree of /repo '
                      '(first on sys.path); HL7APY_VERIF is reserved and unused',
            'baseline_off_cmd': 'cd /repo && /venv/bin/python -m pytest -ra -q -p no:cacheprovider --timeout=900 '
                                '--continue-on-collection-errors',
            'source_commits': [],
            'add_only': True,
        },
        'engines': [
            {'name': 'crosshair-e1', 'path': 'vlib/chworker.py + harness/cNN.py', 'serves_properties': sorted(CHECKS),
             'kind_free_text': E1},
        ],
        'checks': checks,
        'not_applicable': NOT_APPLICABLE,
        'notes': 'Exit codes of ./check: 0 held on everything explored; 1 VIOLATION (replayed on the real library, not in '
                 'known_findings.json); 2 harness/infrastructure error. fix: commits in /repo are listed in '
                 'known_findings.json as fixed entries.',
    }
    with open(os.path.join(VERIF, 'MANIFEST.json'), 'w') as f:
        json.dump(m, f, indent=1)
    print('MANIFEST.json written: %d checks' % len(checks))


if __name__ == '__main__':
    main()
