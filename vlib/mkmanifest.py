"""Regenerate MANIFEST.json from the table below (python3 -m vlib.mkmanifest)."""
import json
import os

VERIF = os.path.dirname(os.path.dirname(os.path.abspath(__file__)))

E1 = ('CrossHair 0.0.110 (symbolic execution of the real hl7apy code, z3 deciding every branch); verdict per '
      'partition piece is "Confirmed over all paths" or a replayed counterexample')

CHECKS = {
    'C15': dict(
        technique='solver-based: CrossHair/z3 symbolic execution of parser._split_msh/get_message_*/parse_message on '
                  'fully symbolic header strings and symbolically chosen mutations; bounded exhaustive',
        text='Bounded model checking of the real parser entry points: for every string t up to the stated length '
             '(7 quick / 8 thorough, every character value) get_message_type/get_message_info("MSH"+t) and (shorter t) '
             'parse_message+to_er7+validate either return or raise an HL7apyException (ValueError under STRICT); the same '
             'for every single-position truncate/delete/duplicate/CR-insert mutation of fixed valid messages and a '
             'catalogue of garbled names. Exhaustive inside the bound, nothing claimed outside it.',
        note='Trusted: CrossHair\'s model of str/re/dict (every counterexample is replayed on plain CPython before it is '
             'reported); z3. Bounds: header length, the listed messages, one mutation at a time.',
        ref='DESIGN.md §3 C15'),
    'C02': dict(
        technique='solver-based: CrossHair/z3 exhaustion of symbolic table-row indices through the real Segment/Field/parser '
                  'code (all rows of all 12 versions) + z3 table obligations over ground facts from the live tables',
        engine='crosshair-e1 + z3-e3',
        text='Every one of the 23,111 field rows and 11,765 component/subcomponent rows of the 12 versions is driven through '
             'the real code (set by name -> encode -> count separators -> parse -> read back by name) with the row index '
             'symbolic and exhausted by CrossHair/z3; every segment entry and complex datatype is instantiated; Z-segments and '
             'varies-tailed segments are checked for every index pair i<j up to 24 (96 thorough) beyond the defined count. '
             'Independently z3 decides, per segment/datatype table, that child numbers are strictly increasing (fields) / equal '
             'to ordinal+1 (components). Exhaustive over the finite table domain, bounded for open-ended indices.',
        note='Per row the solver contributes exhaustion, not abstraction (each row is a distinct dict key); the library runs '
             'concretely on the row. E3 assumes the generic code depends on a row only through (ordinal, name, number, datatype) '
             '- exercised by replaying any reported row. TOLERANT level, plain-text values.',
        ref='DESIGN.md §3 C02'),
    'C09': dict(
        technique='solver-based: CrossHair/z3 exhaustion of a symbolic bounded operation history on real hl7apy elements, '
                  'compared step by step with a list reference model',
        text='Bounded model checking over operation histories: every history of length <=2 over the full operation '
             'alphabet (set by name/long name, add, add_<child>, proxy[i]=, del by name/index, remove, copy, assign element) '
             'and every history of length 3 over the core alphabet (thorough: length 3 over the full alphabet) on a PID '
             'segment and an ADT_A01 message, from 2-3 initial states; after every step the encoding must equal the '
             'reference list model\'s. Exhaustive inside the bound (CrossHair "Confirmed over all paths" per piece).',
        note='Action indices are symbolic; z3 enumerates/exhausts the finite action space, the library runs concretely per '
             'path (a history of small integers leaves nothing to abstract). Trusted: reference model/encoder in '
             'harness/hist.py, CrossHair, z3. Bound: history length, the listed children, TOLERANT, v2.5.',
        ref='DESIGN.md §3 C09'),
    'C10': dict(
        technique='solver-based: CrossHair/z3 exhaustion of symbolic bounded histories (incl. refused operations and '
                  're-attachment) with a tree-consistency observer after every step',
        text='Bounded model checking over histories of length <=2 (thorough: full alphabet, plus length 3 over selected '
             'operations) on a segment (inside a message), a message and a field, both validation levels symbolic: after '
             'EVERY operation, accepted or refused, parent pointers, single listing, list/by-name index/proxy/len/iter/in/[] '
             'agreement and one version + one level per tree are checked by an outside observer.',
        note='Same engine and trusted base as C09; the observer reads ElementList.list/indexes/traversal_indexes and '
             'Element._parent without writing.',
        ref='DESIGN.md §3 C10'),
    'C12': dict(
        technique='solver-based: CrossHair/z3 exhaustion of symbolic bounded histories whose operations may be refused; '
                  'before/after snapshot comparison on every raising call',
        text='Bounded model checking: for every history of length <=2 (thorough: full alphabet and length 3) drawn from '
             'accepted and refusable operations (wrong class, wrong name, other version, other level, cardinality, invalid '
             'value, absent index, datatype change on populated element, replacement by each of those), whenever a call '
             'raises, the target, the second element and the enclosing message encode and list exactly the same children as '
             'before, and the offered child is not left half-attached.',
        note='Same engine and trusted base as C09/C10. Snapshot = to_er7() + identity listing of children, recursively.',
        ref='DESIGN.md §3 C12'),
}

PLANNED = ['C%02d' % i for i in range(1, 20)]
NOT_APPLICABLE = []


def main():
    checks = []
    for pid in sorted(CHECKS):
        c = CHECKS[pid]
        checks.append({
            'property_id': pid,
            'quick_cmd': './check %s --tier quick' % pid,
            'thorough_cmd': './check %s --tier thorough' % pid,
            'evidence_file': 'evidence/%s.json' % pid,
            'replay_cmd_template': './check %s --replay {path}' % pid,
            'engine': c.get('engine', 'crosshair-e1'),
            'level_claimed': {'category': c.get('category', 'model_checking'), 'text': c['text'], 'design_ref': c['ref']},
            'level_note': c['note'],
            'technique': c['technique'],
        })
    m = {
        'version': 1,
        'setup_cmd': './setup.sh',
        'hooks': {
            'guard': 'HL7APY_VERIF',
            'enable': 'no hooks are compiled into hl7apy: the checks import the unmodified working tree of /repo '
                      '(first on sys.path); HL7APY_VERIF is reserved and unused',
            'baseline_off_cmd': 'cd /repo && /venv/bin/python -m pytest -ra -q -p no:cacheprovider --timeout=900 '
                                '--continue-on-collection-errors',
            'source_commits': [],
            'add_only': True,
        },
        'engines': [
            {'name': 'crosshair-e1', 'path': 'vlib/chworker.py + harness/cNN.py', 'serves_properties': sorted(CHECKS),
             'kind_free_text': E1},
            {'name': 'z3-e3', 'path': 'vlib/fnworker.py + harness/c02.py (_e3_run)', 'serves_properties': ['C02'],
             'kind_free_text': 'z3 queries over ground facts extracted from the live version tables on every run; models are '
                               'replayed through the public API'},
        ],
        'checks': checks,
        'not_applicable': NOT_APPLICABLE + [
            {'property_id': p, 'reason': 'no check registered at this commit (planned with the same technique, see DESIGN.md §3); '
                                         'nothing is claimed for it yet'}
            for p in PLANNED if p not in CHECKS and p not in [n['property_id'] for n in NOT_APPLICABLE]],
        'notes': 'Exit codes of ./check: 0 held on everything explored; 1 VIOLATION (replayed on the real library, not in '
                 'known_findings.json); 2 harness/infrastructure error. fix: commits in /repo are listed in '
                 'known_findings.json as fixed entries.',
    }
    with open(os.path.join(VERIF, 'MANIFEST.json'), 'w') as f:
        json.dump(m, f, indent=1)
    print('MANIFEST.json written: %d checks' % len(checks))


if __name__ == '__main__':
    main()
