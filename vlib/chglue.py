"""Glue shared by every E1 harness.  Inert outside CrossHair (only reads the environment).

* puts /repo first on sys.path so that `import hl7apy` is the working tree under test
* PART_K / PART_N : the partition piece this process analyses (env VP_PART="k/n")
* TIER, SEED
* KNOWN_OFF : when set (env VP_KNOWN_OFF=1) the harness does NOT skip inputs that belong to a
  recorded known-finding family (used when a known-finding witness is replayed)
* reset_defaults() : restore hl7apy's process-wide defaults (CrossHair re-executes the body many times
  in one process)
* CrossHair patch for the unbound C descriptor call `datetime.strftime(obj, fmt)` used by
  hl7apy.base_datatypes.DateTimeDataType.to_er7 (CrossHair substitutes a pure-Python datetime for which the
  C descriptor raises a TypeError that does not exist in a real run)
"""
import os
import sys

REPO = os.environ.get('VP_REPO', '/repo')
if REPO not in sys.path[:1]:
    sys.path.insert(0, REPO)

_p = os.environ.get('VP_PART', '0/1').split('/')
PART_K, PART_N = int(_p[0]), int(_p[1])
TIER = os.environ.get('VERIF_TIER', 'quick')
try:
    SEED = int(os.environ.get('VERIF_SEED', '0') or 0)
except ValueError:
    SEED = 0
KNOWN_OFF = os.environ.get('VP_KNOWN_OFF', '') == '1'
THOROUGH = TIER == 'thorough'


def in_part(x):
    """True iff integer x belongs to this process's partition piece."""
    return x % PART_N == PART_K


import hl7apy  # noqa: E402
from hl7apy import consts as _consts  # noqa: E402

_PRISTINE = (dict(_consts.DEFAULT_ENCODING_CHARS), dict(_consts.DEFAULT_ENCODING_CHARS_27),
             _consts.DEFAULT_VERSION, _consts.VALIDATION_LEVEL.TOLERANT)


def reset_defaults():
    # exactly the state of a process that has just imported hl7apy: the module-level defaults ARE the dictionaries of
    # hl7apy.consts (same objects), with their original contents
    for const, orig in ((_consts.DEFAULT_ENCODING_CHARS, _PRISTINE[0]), (_consts.DEFAULT_ENCODING_CHARS_27, _PRISTINE[1])):
        if const != orig:
            const.clear()
            const.update(orig)
    hl7apy._DEFAULT_ENCODING_CHARS = _consts.DEFAULT_ENCODING_CHARS
    hl7apy._DEFAULT_ENCODING_CHARS_27 = _consts.DEFAULT_ENCODING_CHARS_27
    hl7apy._DEFAULT_VERSION = _PRISTINE[2]
    hl7apy._DEFAULT_VALIDATION_LEVEL = _PRISTINE[3]


class _NoCtx(object):
    def __enter__(self):
        return self

    def __exit__(self, *a):
        return False


def concrete():
    """Context manager: run the enclosed code WITHOUT CrossHair's opcode tracing (plain CPython speed).
    Only legal once every value the enclosed code touches has been concretised (fork-per-value); outside CrossHair
    it is a no-op."""
    if 'crosshair' in sys.modules:
        try:
            from crosshair.tracers import NoTracing, is_tracing
            if is_tracing():
                return NoTracing()
        except Exception:
            pass
    return _NoCtx()


def _install_crosshair_patches():
    if 'crosshair' not in sys.modules:
        return
    try:
        import datetime
        from crosshair.core import register_patch

        def _strftime(self, fmt):
            return self.strftime(fmt)

        register_patch(datetime.datetime.strftime, _strftime)
    except Exception:  # already registered / API change: harness twins will reveal a broken setup
        pass
    try:
        # CrossHair's replacement for the builtin format() deep-copies ("deep_realize") its argument.  hl7apy
        # elements cannot be deep-copied - Element.__getattr__ recurses for ever on a blank instance, also in a
        # plain interpreter - so `"{}".format(element)` (used in hl7apy's validation and exception messages)
        # would surface as a RecursionError that no real run has.  hl7apy objects are formatted directly instead.
        from crosshair import core as _c
        _orig_format = _c._PATCH_REGISTRATIONS[format]

        def _hl7_format(obj, format_spec=''):
            if type(obj).__module__.split('.')[0] == 'hl7apy':
                return type(obj).__format__(obj, format_spec)
            return _orig_format(obj, format_spec)

        _c._PATCH_REGISTRATIONS[format] = _hl7_format
    except Exception:
        pass


_install_crosshair_patches()


_KNOWN_CACHE = None


def known_open(finding_id):
    """True iff known_findings.json lists `finding_id` as an open finding (and exclusions are not switched off).
    Harnesses use it to skip exactly the recorded family of inputs; removing the entry from the file makes the
    check report the finding as a violation again."""
    global _KNOWN_CACHE
    if KNOWN_OFF:
        return False
    if _KNOWN_CACHE is None:
        import json
        path = os.path.join(os.path.dirname(os.path.dirname(os.path.abspath(__file__))), 'known_findings.json')
        try:
            with open(path) as f:
                data = json.load(f)
            _KNOWN_CACHE = {e.get('id') for e in data.get('findings', []) if e.get('status', 'open') == 'open'}
        except (OSError, ValueError):
            _KNOWN_CACHE = set()
    return finding_id in _KNOWN_CACHE


import pickle as _pickle


def forked(thunk):
    """run thunk() in a forked child and return its (picklable) result.  Used where the outcome may depend on what ran earlier in the
    process (module-level tables, caches, defaults): each such run starts from the state of a worker that has imported hl7apy and
    executed nothing else, so a result neither depends on the order in which paths are explored nor fails to replay."""
    r, w = os.pipe()
    pid = os.fork()
    if pid == 0:
        code = 0
        try:
            os.close(r)
            try:
                data = _pickle.dumps(('ok', thunk()))
            except BaseException as e:      # noqa - the child must never return into the caller's frames
                data = _pickle.dumps(('err', '%s: %s' % (type(e).__name__, e)))
            with os.fdopen(w, 'wb') as f:
                f.write(data)
        except BaseException:               # noqa
            code = 3
        finally:
            os._exit(code)
    os.close(w)
    with os.fdopen(r, 'rb') as f:
        data = f.read()
    os.waitpid(pid, 0)
    kind, val = _pickle.loads(data)
    if kind == 'err':
        raise RuntimeError('forked schedule failed: %s' % val)
    return val
