"""Orchestrator:  ./check <PROPERTY> [--tier quick|thorough] [--replay path] [--only obligation]

For one property it
  1. makes sure the overlay interpreter with CrossHair exists (/verif/.venv, built offline from the wheelhouse),
  2. imports the property's harness module (harness/cNN.py) and reads its SPEC,
  3. runs every obligation: E1 obligations as CrossHair jobs (one OS process per partition piece, 16 at a time),
     E2/E3 obligations through the callable the SPEC names,
  4. replays every counterexample against the unmodified library in a fresh plain interpreter,
  5. prints VIOLATION / KNOWN-FINDING / INCONCLUSIVE lines, writes evidence/<id>.json and exits
        0  property held on everything explored (known findings and inconclusive pieces are listed)
        1  a reproduced violation that known_findings.json does not list
        2  infrastructure / harness error (twin not refuted, worker crashed, solver missing, ...)
"""
import argparse
import concurrent.futures
import hashlib
import importlib
import json
import os
import re
import subprocess
import sys
import time

VERIF = os.path.dirname(os.path.dirname(os.path.abspath(__file__)))
REPO = os.environ.get('VP_REPO', '/repo')
VENV_PY = os.path.join(VERIF, '.venv', 'bin', 'python')
BASE_PY = '/venv/bin/python'
NPROC = int(os.environ.get('VP_NPROC', '0') or 0) or min(16, os.cpu_count() or 4)


def log(*a):
    print(*a, flush=True)


# ----------------------------------------------------------------------------------------------- bootstrap
def bootstrap():
    """Create /verif/.venv (overlay on /venv + crosshair-tool, z3-solver) if it is not usable."""
    ok = False
    if os.path.exists(VENV_PY):
        r = subprocess.run([VENV_PY, '-c', 'import crosshair, z3, hl7apy'], capture_output=True)
        ok = r.returncode == 0
    if ok:
        return
    log('[bootstrap] building overlay interpreter', VENV_PY)
    subprocess.run(['rm', '-rf', os.path.join(VERIF, '.venv')], check=True)
    subprocess.run([BASE_PY, '-m', 'venv', os.path.join(VERIF, '.venv')], check=True)
    sp = subprocess.run([VENV_PY, '-c', 'import site; print(site.getsitepackages()[0])'],
                        capture_output=True, text=True, check=True).stdout.strip()
    with open(os.path.join(sp, '_overlay.pth'), 'w') as f:
        f.write("import site; site.addsitedir('/venv/lib/python3.12/site-packages')\n")
    env = dict(os.environ, PIP_NO_INDEX='1')
    subprocess.run([VENV_PY, '-m', 'pip', 'install', '-q', '--no-index', '--find-links',
                    '/opt/veriftools/wheels', 'crosshair-tool', 'z3-solver'], check=True, env=env)
    subprocess.run([VENV_PY, '-c', 'import crosshair, z3, hl7apy'], check=True)


# ----------------------------------------------------------------------------------------------- helpers
def file_hash(path):
    try:
        with open(path, 'rb') as f:
            return hashlib.sha256(f.read()).hexdigest()[:16]
    except OSError:
        return None


def load_known(prop):
    path = os.path.join(VERIF, 'known_findings.json')
    try:
        with open(path) as f:
            data = json.load(f)
    except OSError:
        return []
    return [e for e in data.get('findings', []) if e.get('property') == prop]


def worker_env(tier, seed, part, extra=None):
    env = dict(os.environ)
    env.update({'VERIF_TIER': tier, 'VERIF_SEED': str(seed), 'VP_PART': part, 'PYTHONHASHSEED': '0',
                'PYTHONDONTWRITEBYTECODE': '1', 'PYTHONPATH': VERIF, 'VP_REPO': REPO})
    env.pop('VP_KNOWN_OFF', None)
    if extra:
        env.update(extra)
    return env


def run_e1_piece(modname, ob, tier, seed, k, n):
    ct = ob.get('cond_timeout', 90)
    pt = ob.get('path_timeout', 30)
    if isinstance(ct, dict):
        ct = ct[tier]
    if isinstance(pt, dict):
        pt = pt[tier]
    cmd = [VENV_PY, '-m', 'vlib.chworker', modname, ob['fn'], '--cond-timeout', str(ct),
           '--path-timeout', str(pt), '--with-twin']
    t0 = time.time()
    try:
        r = subprocess.run(cmd, cwd=VERIF, env=worker_env(tier, seed, '%d/%d' % (k, n)),
                           capture_output=True, text=True, timeout=ct * 2 + 120)
        outs = [json.loads(ln[len('@@RESULT '):]) for ln in r.stdout.splitlines() if ln.startswith('@@RESULT ')]
        if not outs:
            outs = [{'status': 'error', 'message': 'no result line; rc=%s stderr=%s' % (r.returncode, r.stderr[-800:])}]
    except subprocess.TimeoutExpired:
        outs = [{'status': 'unknown', 'message': 'outer timeout'}]
    res = {'piece': '%d/%d' % (k, n), 'wall_s': round(time.time() - t0, 2)}
    for o in outs:
        if o.get('twin'):
            res['twin'] = o
        else:
            res['main'] = o
    res.setdefault('main', {'status': 'error', 'message': 'main verdict missing'})
    return res


def run_fn_worker(modname, fname, tier, seed, timeout):
    """run harness function `fname(tier=, seed=, nproc=)` in the overlay interpreter (z3 / cvc5 live there)"""
    cmd = [VENV_PY, '-m', 'vlib.fnworker', modname, fname, str(NPROC)]
    r = subprocess.run(cmd, cwd=VERIF, env=worker_env(tier, seed, '0/1'), capture_output=True, text=True, timeout=timeout)
    for ln in r.stdout.splitlines():
        if ln.startswith('@@RESULT '):
            return json.loads(ln[len('@@RESULT '):])
    return {'status': 'error', 'message': 'no result from %s.%s rc=%s: %s' % (modname, fname, r.returncode, (r.stderr or r.stdout)[-1500:])}


REPLAY_TMPL = '''#!/venv/bin/python
# Replay of a counterexample for property {prop}, obligation {ob} ({engine}).
# Runs the harness obligation CONCRETELY on the solver's input against the library in {repo!r}
# (no CrossHair, no solver).  Exit 0: property holds on this input; exit 1: violation reproduced.
import os, sys
os.environ.update({{'VP_PART': '0/1', 'VERIF_TIER': {tier!r}, 'VP_KNOWN_OFF': '1', 'VERIF_SEED': {seed!r}}})
os.environ.setdefault('VP_REPO', {repo!r})
sys.path[:0] = [{verif!r}]
sys.dont_write_bytecode = True
import importlib
H = importlib.import_module({mod!r})
CALL = {call!r}
try:
    ok = eval(CALL, H.__dict__)
    detail = 'returned %r' % (ok,)
except Exception as e:
    ok = False
    detail = 'raised %s: %s' % (type(e).__name__, e)
print('replay', CALL, '->', detail)
if hasattr(H, 'explain'):
    try:
        print(H.explain(CALL))
    except Exception as e:
        print('(explain failed: %r)' % (e,))
sys.exit(0 if ok is True else 1)
'''


def write_replay(prop, modname, obname, engine, call, tier, seed):
    d = os.path.join(VERIF, 'evidence', 'replays', prop)
    os.makedirs(d, exist_ok=True)
    h = hashlib.sha1(call.encode()).hexdigest()[:10]
    path = os.path.join(d, '%s_%s.py' % (re.sub(r'\W+', '_', obname), h))
    with open(path, 'w') as f:
        f.write(REPLAY_TMPL.format(prop=prop, ob=obname, engine=engine, repo=REPO, tier=tier, seed=str(seed),
                                   verif=VERIF, mod=modname, call=call))
    return path


def run_replay(path):
    env = dict(os.environ, PYTHONHASHSEED='0', PYTHONDONTWRITEBYTECODE='1', VP_REPO=REPO)
    try:
        r = subprocess.run([BASE_PY, path], capture_output=True, text=True, timeout=300, env=env, cwd=VERIF)
    except subprocess.TimeoutExpired:
        return None, 'replay timeout'
    return r.returncode, (r.stdout + r.stderr)[-1500:]


# ----------------------------------------------------------------------------------------------- main
def main():
    ap = argparse.ArgumentParser()
    ap.add_argument('prop')
    ap.add_argument('--tier', default=os.environ.get('VERIF_TIER') or 'quick', choices=['quick', 'thorough'])
    ap.add_argument('--replay')
    ap.add_argument('--only', help='comma separated obligation names')
    ap.add_argument('--no-evidence', action='store_true')
    a = ap.parse_args()
    prop = a.prop.upper()
    if a.replay:
        rc, out = run_replay(a.replay)
        print(out)
        sys.exit(1 if rc else 0)
    try:
        seed = int(os.environ.get('VERIF_SEED', '0') or 0)
    except ValueError:
        seed = 0
    tier = a.tier
    t_start = time.time()
    try:
        bootstrap()
    except Exception as e:
        log('HARNESS-ERROR bootstrap failed: %r' % (e,))
        sys.exit(2)

    os.environ.update({'VERIF_TIER': tier, 'VERIF_SEED': str(seed), 'VP_PART': '0/1', 'VP_REPO': REPO})
    sys.path[:0] = [VERIF]
    sys.dont_write_bytecode = True
    modname = 'harness.%s' % prop.lower()
    H = importlib.import_module(modname)
    spec = H.SPEC
    obligations = spec['obligations']
    if a.only:
        want = set(a.only.split(','))
        obligations = [o for o in obligations if o['name'] in want]
    known = load_known(prop)
    open_known = [e for e in known if e.get('status', 'open') == 'open']

    results = {}
    harness_errors = []
    violations = []     # reproduced, not known
    artefacts = []      # counterexamples that did not replay
    inconclusive = []
    known_seen = []

    # ---- E1 jobs -----------------------------------------------------------------------------------
    e1_jobs = []
    for ob in obligations:
        if ob.get('engine', 'E1') != 'E1':
            continue
        n = ob.get('parts', 1)
        if isinstance(n, dict):
            n = n[tier]
        results[ob['name']] = {'engine': 'E1', 'fn': ob['fn'], 'pieces': [None] * n, 'bound': ob.get('bound', ''),
                               'what': ob.get('what', '')}
        for k in range(n):
            e1_jobs.append((ob, k, n))
    log('[%s] tier=%s seed=%d : %d E1 pieces over %d obligations, %d workers'
        % (prop, tier, seed, len(e1_jobs), len(results), NPROC))
    # longest first is unknown; interleave obligations so heavy ones start early
    with concurrent.futures.ThreadPoolExecutor(max_workers=NPROC) as ex:
        futs = {ex.submit(run_e1_piece, modname, ob, tier, seed, k, n): (ob, k) for (ob, k, n) in e1_jobs}
        for fut in concurrent.futures.as_completed(futs):
            ob, k = futs[fut]
            try:
                res = fut.result()
            except Exception as e:  # noqa
                res = {'piece': '%d' % k, 'main': {'status': 'error', 'message': repr(e)}}
            results[ob['name']]['pieces'][k] = res

    # ---- E2 / E3 obligations -----------------------------------------------------------------------
    for ob in obligations:
        eng = ob.get('engine', 'E1')
        if eng == 'E1':
            continue
        t0 = time.time()
        try:
            if 'worker' in ob:
                r = run_fn_worker(modname, ob['worker'], tier, seed, ob.get('timeout', 3600))
            else:
                r = ob['run'](tier=tier, seed=seed, nproc=NPROC)
        except Exception as e:  # noqa
            import traceback
            r = {'status': 'error', 'message': '%s: %s' % (type(e).__name__, e), 'traceback': traceback.format_exc()[-2000:]}
        r.setdefault('engine', eng)
        r.setdefault('bound', ob.get('bound', ''))
        r.setdefault('what', ob.get('what', ''))
        r['wall_s'] = round(time.time() - t0, 2)
        results[ob['name']] = r

    # ---- verdicts ----------------------------------------------------------------------------------
    total_paths = 0
    total_confirmed_paths = 0
    n_pieces = n_confirmed = 0
    queries = 0
    solver_s = 0.0
    samples = []
    cex_calls = []   # (obname, engine, call, message)
    for obname, r in results.items():
        if r['engine'] == 'E1':
            sts = []
            for p in r['pieces']:
                m = p['main']
                n_pieces += 1
                total_paths += m.get('paths', 0)
                total_confirmed_paths += m.get('confirmed_paths', 0)
                sts.append(m['status'])
                tw = p.get('twin')
                if m['status'] == 'error':
                    harness_errors.append('%s piece %s: %s' % (obname, p['piece'], m.get('message')))
                    continue
                if tw is None or tw.get('status') != 'refuted':
                    # a twin that is not refuted means: precondition unsatisfiable for this piece, or no path
                    # returns within the budget -> the piece's verdict would be vacuous
                    if m['status'] == 'confirmed' and m.get('confirmed_paths', 0) == 0:
                        harness_errors.append('%s piece %s: vacuous (twin %s, 0 confirmed paths)'
                                              % (obname, p['piece'], tw and tw.get('status')))
                    elif tw is None or tw.get('status') in ('error', 'confirmed', 'pre_unsat'):
                        if not ob_allows_empty(spec, obname):
                            harness_errors.append('%s piece %s: twin not refuted (%s)'
                                                  % (obname, p['piece'], tw and (tw.get('status'), tw.get('message'))))
                if m['status'] == 'confirmed':
                    n_confirmed += 1
                elif m['status'] == 'refuted':
                    if m.get('call'):
                        cex_calls.append((obname, 'E1', m['call'], m.get('message', '')))
                    else:
                        harness_errors.append('%s piece %s: refuted without evaluable counterexample: %s'
                                              % (obname, p['piece'], m.get('message')))
                elif m['status'] == 'pre_unsat':
                    if not ob_allows_empty(spec, obname):
                        inconclusive.append('%s piece %s: unable to meet precondition' % (obname, p['piece']))
                    else:
                        n_confirmed += 1
                else:
                    inconclusive.append('%s piece %s: not confirmed within budget (%d paths explored)'
                                        % (obname, p['piece'], m.get('paths', 0)))
            r['status'] = ('refuted' if 'refuted' in sts else 'error' if 'error' in sts else
                           'confirmed' if all(s == 'confirmed' or (s == 'pre_unsat' and ob_allows_empty(spec, obname))
                                              for s in sts) else 'unknown')
            r['paths'] = sum(p['main'].get('paths', 0) for p in r['pieces'])
            r['confirmed_paths'] = sum(p['main'].get('confirmed_paths', 0) for p in r['pieces'])
            samples.append({'obligation': obname, 'engine': 'E1', 'bound': r['bound'], 'status': r['status'],
                            'paths': r['paths']})
        else:
            n_pieces += r.get('pieces_total', 1)
            n_confirmed += r.get('pieces_confirmed', 1 if r.get('status') == 'confirmed' else 0)
            total_paths += r.get('paths', 0)
            total_confirmed_paths += r.get('confirmed_paths', r.get('paths', 0))
            queries += r.get('queries', 0)
            solver_s += r.get('solver_s', 0.0)
            if r.get('status') == 'error':
                harness_errors.append('%s: %s' % (obname, r.get('message')))
            for c in r.get('counterexamples', []):
                cex_calls.append((obname, r['engine'], c['call'], c.get('message', '')))
            for msg in r.get('inconclusive', []):
                inconclusive.append('%s: %s' % (obname, msg))
            for s in r.get('samples', [])[:3]:
                samples.append({'obligation': obname, 'engine': r['engine'], 'sample': s})

    # ---- replay counterexamples --------------------------------------------------------------------
    seen_calls = set()
    for obname, eng, call, msg in cex_calls:
        if call in seen_calls:
            continue
        seen_calls.add(call)
        path = write_replay(prop, modname, obname, eng, call, tier, seed)
        rc, out = run_replay(path)
        if rc == 1:
            violations.append({'obligation': obname, 'call': call, 'message': msg, 'replay': path,
                               'output': out[-600:]})
        else:
            artefacts.append({'obligation': obname, 'call': call, 'message': msg, 'replay_rc': rc,
                              'output': (out or '')[-400:]})
            inconclusive.append('%s: counterexample %s did not reproduce on the real library (engine artefact)'
                                % (obname, call[:120]))
            try:
                os.remove(path)
            except OSError:
                pass

    # ---- known findings: replay each listed witness --------------------------------------------------
    for e in open_known:
        wit = e.get('witness')
        if not wit:
            continue
        path = write_replay(prop, modname, 'known_' + e.get('id', 'x'), 'witness', wit, tier, seed)
        rc, out = run_replay(path)
        if rc == 1:
            known_seen.append(e)
            log('KNOWN-FINDING: property=%s %s [%s] witness=%s' % (prop, e.get('what', ''), e.get('id', ''), wit))
        else:
            log('[%s] note: listed finding %s no longer reproduces on this tree (rc=%s)' % (prop, e.get('id'), rc))
            try:
                os.remove(path)
            except OSError:
                pass

    for msg in inconclusive:
        log('INCONCLUSIVE property=%s %s' % (prop, msg))
    for msg in harness_errors:
        log('HARNESS-ERROR property=%s %s' % (prop, msg))
    for v in violations:
        log('VIOLATION property=%s replay=%s' % (prop, v['replay']))
        log('    obligation=%s input=%s' % (v['obligation'], v['call'][:300]))
        log('    ' + v['output'].strip().replace('\n', '\n    ')[-500:])

    wall = round(time.time() - t_start, 2)
    exhaustive = (not inconclusive) and (not harness_errors) and n_pieces > 0 and n_confirmed == n_pieces
    files = {}
    for rel in spec.get('files', []):
        files[rel] = file_hash(os.path.join(REPO, rel))
    # the level is the one claimed for the property in MANIFEST.json (SPEC['level'], default model_checking); whether THIS run
    # was exhaustive inside its bounds is recorded in coverage.exhaustive / coverage.inconclusive
    level = spec.get('level', 'model_checking')
    ev = {
        'property_id': prop,
        'tier': tier,
        'seed': seed,
        'level': level,
        'wall_s': wall,
        'violations': len(violations),
        'assumptions': spec.get('assumptions', []),
        'coverage': {
            'evaluations': max(total_paths + queries, 1),
            'distinct_nontrivial': max(total_confirmed_paths, 0),
            'rule': spec.get('rule', 'every evaluation is one symbolic execution path of an obligation function through the '
                             'real hl7apy code (CrossHair + z3) or one solver query; a path is non-trivial when it '
                             'satisfied the precondition, ran the library code and reached the postcondition; paths are '
                             'distinct by construction (each is a different branch of the path tree)'),
            'samples': samples[:40],
            'exhaustive': bool(exhaustive),
            'obligations': n_pieces,
            'discharged': n_confirmed,
            'explanation': spec.get('explanation', ''),
            'engines': sorted({r['engine'] for r in results.values()}),
            'functions_encoded': spec.get('functions_encoded', []),
            'source_hashes': files,
            'bounds': {k: r.get('bound', '') for k, r in results.items()},
            'outside_bounds': spec.get('outside', []),
            'stubs': spec.get('stubs', []),
            'paths_explored': total_paths,
            'paths_reaching_postcondition': total_confirmed_paths,
            'solver_queries': queries,
            'solver_seconds': round(solver_s, 2),
            'cpu_note': 'E1 pieces run as separate processes, %d at a time; per-piece wall in per_obligation' % NPROC,
            'per_obligation': {k: _strip(r) for k, r in results.items()},
            'inconclusive': inconclusive,
            'harness_errors': harness_errors,
            'engine_artefacts': artefacts,
            'known_findings_seen': [e.get('id') for e in known_seen],
            'violations': violations,
        },
    }
    if not a.no_evidence:
        os.makedirs(os.path.join(VERIF, 'evidence'), exist_ok=True)
        with open(os.path.join(VERIF, 'evidence', '%s.json' % prop), 'w') as f:
            json.dump(ev, f, indent=1, sort_keys=True, default=str)
    log('[%s] done in %.1fs: pieces %d/%d confirmed, paths=%d, queries=%d, violations=%d, known=%d, inconclusive=%d, errors=%d'
        % (prop, wall, n_confirmed, n_pieces, total_paths, queries, len(violations), len(known_seen),
           len(inconclusive), len(harness_errors)))
    if violations:
        sys.exit(1)
    if harness_errors:
        sys.exit(2)
    sys.exit(0)


def ob_allows_empty(spec, obname):
    for o in spec['obligations']:
        if o['name'] == obname:
            return bool(o.get('allow_empty_pieces'))
    return False


def _strip(r):
    r = dict(r)
    r.pop('run', None)
    if 'pieces' in r:
        ps = []
        for p in r['pieces']:
            m = p['main']
            ps.append({'piece': p['piece'], 'status': m['status'], 'paths': m.get('paths'),
                       'confirmed_paths': m.get('confirmed_paths'), 'wall_s': p.get('wall_s'),
                       'twin': (p.get('twin') or {}).get('status'),
                       'message': (m.get('message') or '')[:300]})
        r['pieces'] = ps
    return r


if __name__ == '__main__':
    main()
