"""Run one harness function (an E2 / E3 obligation) in the overlay interpreter and print its result as JSON."""
import importlib
import json
import os
import sys
import traceback


def main():
    modname, fname, nproc = sys.argv[1], sys.argv[2], int(sys.argv[3])
    try:
        mod = importlib.import_module(modname)
        out = getattr(mod, fname)(tier=os.environ.get('VERIF_TIER', 'quick'), seed=int(os.environ.get('VERIF_SEED', '0') or 0),
                                  nproc=nproc)
    except BaseException as e:  # noqa
        out = {'status': 'error', 'message': '%s: %s' % (type(e).__name__, e), 'traceback': traceback.format_exc()[-3000:]}
    sys.stdout.write('\n@@RESULT ' + json.dumps(out, default=str) + '\n')
    sys.stdout.flush()


if __name__ == '__main__':
    main()
