"""CrossHair worker: analyse ONE obligation function on ONE partition piece.

Run with the overlay interpreter (/verif/.venv/bin/python), as

    python -m vlib.chworker <harness module> <function> [--twin] --cond-timeout S --path-timeout S

The partition piece and tier are taken from the environment (VP_PART, VERIF_TIER, VERIF_SEED),
which the harness module reads at import time.  The result is ONE json line on stdout, prefixed by
"@@RESULT ", with the CrossHair verdict for the piece:

    status   confirmed | refuted | unknown | pre_unsat | error
    paths    number of execution paths CrossHair ran
    confirmed_paths  paths on which the postcondition was reached and held
    message  CrossHair's message (counterexample text) if any
    call     the counterexample as an evaluable call expression, if any

"confirmed" is CrossHair's "Confirmed over all paths" (the path tree was exhausted and z3 decided every
branch); anything else is NOT a success.
"""
import argparse
import collections
import json
import os
import re
import sys
import time
import types


CALL_RE = re.compile(r'when calling (\w+\(.*?\))(?:\s*\(which returns .*\))?\s*$', re.S)


def analyse(mod, fname, twin, cond_timeout, path_timeout):
    t0 = time.time()
    out = {'module': mod.__name__, 'function': fname, 'twin': twin, 'part': os.environ.get('VP_PART', '0/1')}
    try:
        from crosshair.core import analyze_calltree, FunctionInfo
        from crosshair.condition_parser import condition_parser
        from crosshair.options import DEFAULT_OPTIONS, AnalysisOptionSet, AnalysisKind
        from crosshair.statespace import VerificationStatus, MessageType
        from dataclasses import replace
        from time import process_time
        fn = getattr(mod, fname)
        stats = collections.Counter()
        options = DEFAULT_OPTIONS.overlay(AnalysisOptionSet(
            analysis_kind=(AnalysisKind.PEP316,),
            per_condition_timeout=cond_timeout,
            per_path_timeout=path_timeout,
            report_all=True,
            stats=stats,
        ))
        with condition_parser(options.analysis_kind) as parser:
            conditions = parser.get_fn_conditions(FunctionInfo.from_fn(fn))
        if conditions is None or not conditions.post:
            raise RuntimeError('no conditions parsed for %s' % fname)
        syn = list(conditions.syntax_messages())
        if syn:
            raise RuntimeError('condition syntax error: %s' % [m.message for m in syn])
        post = conditions.post[0]
        if twin:
            # vacuity guard: same precondition, same body, postcondition False -> must be refuted
            post = replace(post, evaluate=(lambda _vars: False), expr_source='False')
        options.deadline = process_time() + options.per_condition_timeout
        with condition_parser(options.analysis_kind):
            analysis = analyze_calltree(options, replace(conditions, post=[post]))
        st = analysis.verification_status
        msgs = list(analysis.messages)
        out['paths'] = int(stats.get('num_paths', 0))
        out['confirmed_paths'] = int(analysis.num_confirmed_paths)
        pre_unsat = [m for m in msgs if m.state == MessageType.PRE_UNSAT]
        fails = [m for m in msgs if m.state in (MessageType.POST_FAIL, MessageType.EXEC_ERR, MessageType.POST_ERR)]
        if pre_unsat:
            out['status'] = 'pre_unsat'
            out['message'] = pre_unsat[0].message
        elif st is VerificationStatus.CONFIRMED:
            out['status'] = 'confirmed'
        elif st is VerificationStatus.REFUTED:
            out['status'] = 'refuted'
            m = fails[0] if fails else (msgs[0] if msgs else None)
            if m is not None:
                out['message'] = m.message
                out['kind'] = m.state.name
                mm = CALL_RE.search(m.message)
                if mm:
                    out['call'] = mm.group(1)
                if m.traceback and not twin:
                    out['traceback'] = m.traceback[-1500:]
        else:
            out['status'] = 'unknown'
    except BaseException as e:  # noqa
        import traceback
        out['status'] = 'error'
        out['message'] = '%s: %s' % (type(e).__name__, e)
        out['traceback'] = traceback.format_exc()[-3000:]
    out['wall_s'] = round(time.time() - t0, 2)
    sys.stdout.write('\n@@RESULT ' + json.dumps(out) + '\n')
    sys.stdout.flush()
    return out


def main():
    ap = argparse.ArgumentParser()
    ap.add_argument('module')
    ap.add_argument('function')
    ap.add_argument('--twin', action='store_true', help='analyse only the vacuity twin')
    ap.add_argument('--with-twin', action='store_true', help='analyse the twin first, then the obligation')
    ap.add_argument('--cond-timeout', type=float, default=60.0)
    ap.add_argument('--path-timeout', type=float, default=20.0)
    ap.add_argument('--verbose', action='store_true')
    a = ap.parse_args()
    try:
        import importlib
        import crosshair.core_and_libs  # noqa: F401 (loads the library patches)
        if a.verbose:
            from crosshair.util import set_debug
            set_debug(True)
        mod = importlib.import_module(a.module)
    except BaseException as e:  # noqa
        import traceback
        sys.stdout.write('\n@@RESULT ' + json.dumps({'status': 'error', 'twin': False,
                         'message': 'import failed: %r' % (e,), 'traceback': traceback.format_exc()[-3000:]}) + '\n')
        sys.stdout.flush()
        os._exit(0)
    if a.twin or a.with_twin:
        analyse(mod, a.function, True, min(a.cond_timeout, 60.0), a.path_timeout)
    if not a.twin:
        analyse(mod, a.function, False, a.cond_timeout, a.path_timeout)
    os._exit(0)


if __name__ == '__main__':
    main()
