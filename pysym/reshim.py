"""Shim for the `re` module as seen by hl7apy.base_datatypes / hl7apy.v2_7.base_datatypes when their code runs on a SymStr.

Concrete arguments are passed to the real `re`.  For a SymStr subject, `sub` supports the pattern family
      [ (?<! X.. ) ]  LITERAL  [ (?! Y.. ) ]
(X.., Y.. fixed sequences of up to two literals / character classes), read from the pattern the code under test builds,
by CPython's own regex parser.  The replacement may be a str or a callable; a callable is called once with a match
object that raises on every access, which proves that its result does not depend on the match.
Anything else raises Unsupported (reported as inconclusive, never as a pass)."""
import re as _re

from pysym import SymStr, Unsupported, And, Or, Not, char_eq, char_in

try:
    from re import _parser as _sre_parse, _constants as _sre_c
except ImportError:  # pragma: no cover
    import sre_parse as _sre_parse
    import sre_constants as _sre_c

escape = _re.escape
compile = _re.compile
IGNORECASE = _re.IGNORECASE

# information about the last symbolic sub(), for the harness
LAST = {}


class _Poison(object):
    def __getattr__(self, name):
        raise Unsupported('replacement callable inspects its match object (%s)' % name)


def _class(item):
    """set of character codes of a LITERAL / IN item"""
    op, av = item
    if op == _sre_c.LITERAL:
        return {av}
    if op == _sre_c.IN:
        out = set()
        for (o, a) in av:
            if o == _sre_c.LITERAL:
                out.add(a)
            elif o == _sre_c.RANGE:
                out.update(range(a[0], a[1] + 1))
            else:
                raise Unsupported('character class item %r' % (o,))
        return out
    raise Unsupported('pattern item %r' % (op,))


def _shape(pattern):
    items = list(_sre_parse.parse(pattern))
    lb, la, lit = [], [], None
    k = 0
    if k < len(items) and items[k][0] == _sre_c.ASSERT_NOT and items[k][1][0] == -1:
        lb = [_class(x) for x in items[k][1][1]]
        k += 1
    if k < len(items) and items[k][0] == _sre_c.LITERAL:
        lit = items[k][1]
        k += 1
    else:
        raise Unsupported('pattern %r is not [lookbehind] literal [lookahead]' % pattern)
    if k < len(items) and items[k][0] == _sre_c.ASSERT_NOT and items[k][1][0] == 1:
        la = [_class(x) for x in items[k][1][1]]
        k += 1
    if k != len(items) or len(lb) > 2 or len(la) > 2:
        raise Unsupported('pattern %r is not [lookbehind<=2] literal [lookahead<=2]' % pattern)
    return lb, lit, la


def sub(pattern, repl, string, count=0, flags=0):
    if not isinstance(string, SymStr):
        return _re.sub(pattern, repl, string, count, flags)
    if count or flags:
        raise Unsupported('re.sub with count/flags on a symbolic string')
    lb, lit, la = _shape(pattern)
    if callable(repl):
        text = repl(_Poison())
    else:
        # a template string: let the real re module expand it (it has no group to refer to in this pattern family)
        try:
            text = _re.sub('x', repl, 'x')
        except _re.error as e:
            raise Unsupported('replacement template %r: %s' % (repl, e))
    if not isinstance(text, str):
        raise Unsupported('replacement is not a constant string')
    nb = string.neighbours()
    out, tags = [], []
    protected = []
    anymatch = []
    for j, ((g, c), t) in enumerate(zip(string.slots, string.tags)):
        is_lit = And(g, char_eq(c, lit))
        if is_lit is False:
            out.append((g, c))
            tags.append(t)
            continue
        p1e, p1c, p2e, p2c, n1e, n1c, n2e, n2c = nb[j]
        if len(lb) == 0:
            LB = False
        elif len(lb) == 1:
            LB = And(p1e, char_in(p1c, lb[0]))
        else:
            LB = And(p1e, char_in(p1c, lb[1]), p2e, char_in(p2c, lb[0]))
        if len(la) == 0:
            LA = False
        elif len(la) == 1:
            LA = And(n1e, char_in(n1c, la[0]))
        else:
            LA = And(n1e, char_in(n1c, la[0]), n2e, char_in(n2c, la[1]))
        m = And(is_lit, Not(LB), Not(LA))
        protected.append(And(is_lit, Or(LB, LA)))
        anymatch.append(m)
        for ch in text:
            out.append((m, ord(ch)))
            tags.append('sub')
        rest = And(g, Not(m))
        if rest is not False:
            out.append((rest, c))
            tags.append(t)
    LAST.clear()
    LAST.update({'protected': Or(*protected), 'matched': Or(*anymatch), 'pattern': pattern, 'replacement': text})
    return SymStr(out, tags)


def match(pattern, string, flags=0):
    if isinstance(string, SymStr):
        raise Unsupported('re.match on a symbolic string')
    return _re.match(pattern, string, flags)


def search(pattern, string, flags=0):
    if isinstance(string, SymStr):
        raise Unsupported('re.search on a symbolic string')
    return _re.search(pattern, string, flags)
