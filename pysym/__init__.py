"""pysym (engine E2): bounded symbolic strings ("guarded slots") on which the repo's own string kernels are executed.

A SymStr is a list of slots (guard, char):  guard is a Python bool or a z3 Bool ("this slot is present"), char is a
Python int (a concrete character code) or a z3 BitVec(8).  The string denoted is the sequence of the characters of the
present slots.  Slots are never compacted; operations that insert text put new guarded slots in place.

Only the operations the kernels use are implemented; anything else raises Unsupported, which the callers report as
INCONCLUSIVE (never as a pass).
"""
import z3


class Unsupported(Exception):
    pass


BV = 8


def bv(x):
    return z3.BitVecVal(x, BV) if isinstance(x, int) else x


def And(*xs):
    ys = []
    for x in xs:
        if x is False:
            return False
        if x is True:
            continue
        ys.append(x)
    if not ys:
        return True
    return ys[0] if len(ys) == 1 else z3.And(*ys)


def Or(*xs):
    ys = []
    for x in xs:
        if x is True:
            return True
        if x is False:
            continue
        ys.append(x)
    if not ys:
        return False
    return ys[0] if len(ys) == 1 else z3.Or(*ys)


def Not(x):
    if x is True:
        return False
    if x is False:
        return True
    return z3.Not(x)


def Ite(c, a, b):
    if c is True:
        return a
    if c is False:
        return b
    if isinstance(a, int) and isinstance(b, int) and a == b:
        return a
    if isinstance(a, bool) and isinstance(b, bool):
        if a == b:
            return a
        return c if a else Not(c)
    if isinstance(a, bool) or isinstance(b, bool):
        a2 = z3.BoolVal(a) if isinstance(a, bool) else a
        b2 = z3.BoolVal(b) if isinstance(b, bool) else b
        return z3.If(c, a2, b2)
    return z3.If(c, bv(a), bv(b))


class SymChar(object):
    """a symbolic character with a static finite domain (used for delimiters): `var` is a BitVec(8), `dom` the set of
    character codes it may take (asserted in the solver by the creator).  Static domain knowledge lets replace() skip
    concrete characters that can never be equal to it."""

    def __init__(self, var, dom):
        self.var = var
        self.dom = frozenset(dom)


# static domains of symbolic characters (z3 constant id -> frozenset of codes); lets equality with a concrete character that is
# outside the domain be decided without the solver (the domain is also asserted in the solver by whoever registers it)
CHAR_DOMAIN = {}


def _dom(c):
    if isinstance(c, int):
        return None
    try:
        return CHAR_DOMAIN.get(c.get_id())
    except Exception:
        return None


def char_eq(c, other):
    """equality of a slot character (int | BitVec) with int | BitVec | SymChar; returns bool or z3 Bool"""
    if isinstance(other, SymChar):
        if isinstance(c, int):
            if c not in other.dom:
                return False
            return other.var == c
        d = _dom(c)
        if d is not None and not (d & other.dom):
            return False
        return c == other.var
    if isinstance(c, int) and isinstance(other, int):
        return c == other
    if isinstance(other, int):
        d = _dom(c)
        if d is not None and other not in d:
            return False
    elif isinstance(c, int):
        d = _dom(other)
        if d is not None and c not in d:
            return False
    return bv(c) == bv(other)


def char_in(c, codes):
    """membership of a slot character in a finite set of concrete codes"""
    if isinstance(c, int):
        return c in codes
    return Or(*[c == k for k in sorted(codes)])


class SymStr(object):
    def __init__(self, slots, tags=None):
        self.slots = list(slots)                  # [(guard, char)]
        self.tags = list(tags) if tags is not None else ['in'] * len(self.slots)

    # -- construction ---------------------------------------------------------------------------------------------
    @staticmethod
    def fresh(name, n, lo=0x20, hi=0x7e, solver=None):
        cs = [z3.BitVec('%s_%d' % (name, i), BV) for i in range(n)]
        if solver is not None:
            for c in cs:
                solver.add(z3.UGE(c, lo), z3.ULE(c, hi))
        return SymStr([(True, c) for c in cs])

    @staticmethod
    def const(text, tag='lit'):
        return SymStr([(True, ord(ch)) for ch in text], [tag] * len(text))

    def __len__(self):
        raise Unsupported('len() of a symbolic string with symbolic presence')

    # -- the kernels' operations ----------------------------------------------------------------------------------
    def replace(self, old, new, tag='repl'):
        """str.replace for `old` of width 1 (a concrete 1-char str, a SymChar, or a 1-slot SymStr) and a concrete `new`"""
        if isinstance(old, SymStr):
            if len(old.slots) != 1 or old.slots[0][0] is not True:
                raise Unsupported('replace() with a symbolic pattern wider than one character')
            old = old.slots[0][1]
        elif isinstance(old, str):
            if len(old) != 1:
                raise Unsupported('replace() with a concrete pattern of width %d' % len(old))
            old = ord(old)
        if isinstance(new, SymStr):
            raise Unsupported('replace() with a symbolic replacement')
        out, tags = [], []
        for (g, c), t in zip(self.slots, self.tags):
            m = And(g, char_eq(c, old))
            if m is False:
                out.append((g, c))
                tags.append(t)
                continue
            for ch in new:
                out.append((m, ord(ch)))
                tags.append(tag)
            rest = And(g, Not(m))
            if rest is not False:
                out.append((rest, c))
                tags.append(t)
        return SymStr(out, tags)

    # -- observation ------------------------------------------------------------------------------------------------
    def concrete(self, model):
        """the denoted string under a z3 model"""
        out = []
        for g, c in self.slots:
            gv = g if isinstance(g, bool) else z3.is_true(model.eval(g, model_completion=True))
            if gv:
                cv = c if isinstance(c, int) else model.eval(c, model_completion=True).as_long()
                out.append(chr(cv))
        return ''.join(out)

    def present_any(self, pred):
        """z3 Bool: some present slot's character satisfies pred(char)"""
        return Or(*[And(g, pred(c)) for g, c in self.slots])

    def inserted_any(self, tagset):
        """some slot whose tag is in tagset is present"""
        return Or(*[g for (g, c), t in zip(self.slots, self.tags) if t in tagset])

    def run_automaton(self, nstates, init, delta):
        """fold a finite automaton over the present slots. state is encoded as a z3 Int-free one-hot list of Bools.
        delta(state_index, char) -> list of (condition, next_state_index) whose conditions partition True.
        returns the one-hot list after the last slot"""
        cur = [k == init for k in range(nstates)]
        for g, c in self.slots:
            if g is False:
                continue
            nxt = [False] * nstates
            for s in range(nstates):
                if cur[s] is False:
                    continue
                for cond, t in delta(s, c):
                    nxt[t] = Or(nxt[t], And(cur[s], cond))
            if g is True:
                cur = nxt
            else:
                cur = [Ite(g, nxt[k], cur[k]) if not (isinstance(nxt[k], bool) and isinstance(cur[k], bool) and nxt[k] == cur[k]) else cur[k]
                       for k in range(nstates)]
        return cur

    def neighbours(self):
        """for every slot j: (p1_exists, p1_char, p2_exists, p2_char, n1_exists, n1_char, n2_exists, n2_char) - the two
        nearest PRESENT slots before and after j.  Linear number of shared z3 terms."""
        n = len(self.slots)
        prev = []
        e1, c1, e2, c2 = False, 0, False, 0
        for g, c in self.slots:
            prev.append((e1, c1, e2, c2))
            ne1, nc1 = Or(g, e1), Ite(g, c, c1)
            ne2, nc2 = Ite(g, e1, e2), Ite(g, c1, c2)
            e1, c1, e2, c2 = ne1, nc1, ne2, nc2
        nxt = [None] * n
        e1, c1, e2, c2 = False, 0, False, 0
        for j in range(n - 1, -1, -1):
            g, c = self.slots[j]
            nxt[j] = (e1, c1, e2, c2)
            ne1, nc1 = Or(g, e1), Ite(g, c, c1)
            ne2, nc2 = Ite(g, e1, e2), Ite(g, c1, c2)
            e1, c1, e2, c2 = ne1, nc1, ne2, nc2
        return [prev[j] + nxt[j] for j in range(n)]
