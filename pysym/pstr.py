"""pysym, part 2: symbolic strings of CONCRETE length (PStr), symbolic booleans / integers, a path explorer and a regex
matcher over PStr.  Used to execute hl7apy/utils.py, factories.py and the date/time/numeric classes of base_datatypes.py.

PStr      list of characters, each a Python int (code) or a z3 BitVec(8); the length is a Python int
SymBool   z3 Bool; `bool(x)` asks the Explorer, which forks (both sides are explored on later runs if feasible)
SymInt    z3 Int with comparisons / + / -
Explorer  depth-first re-execution with a decision prefix; feasibility of each side is checked with the solver
"""
import z3

from pysym import Unsupported, And, Or, Not, bv, SymStr

try:
    from re import _parser as _sre_parse, _constants as _sre_c
except ImportError:  # pragma: no cover
    import sre_parse as _sre_parse
    import sre_constants as _sre_c


class PathEnd(Exception):
    """raised to abandon an infeasible path"""


class Explorer(object):
    current = None

    def __init__(self, solver):
        self.solver = solver
        self.prefix = []      # decisions to replay
        self.trace = []       # decisions taken on the current run: (z3 cond, taken bool)
        self.pending = []     # prefixes still to explore
        self.queries = 0
        self.solver_s = 0.0

    def _feasible(self, extra):
        import time
        self.solver.push()
        for c, t in self.trace:
            self.solver.add(c if t else z3.Not(c))
        self.solver.add(extra)
        t0 = time.time()
        r = self.solver.check()
        self.solver_s += time.time() - t0
        self.queries += 1
        self.solver.pop()
        if r == z3.unknown:
            raise Unsupported('solver could not decide a branch condition')
        return r == z3.sat

    def branch(self, cond):
        k = len(self.trace)
        if k < len(self.prefix):
            taken = self.prefix[k]
        else:
            can_t = self._feasible(cond)
            can_f = self._feasible(z3.Not(cond))
            if can_t and can_f:
                self.pending.append([t for _, t in self.trace] + [False])
                taken = True
            elif can_t:
                taken = True
            elif can_f:
                taken = False
            else:
                raise PathEnd()
        self.trace.append((cond, taken))
        return taken

    def path_condition(self):
        return [c if t else z3.Not(c) for c, t in self.trace]

    def run_all(self, fn, max_paths=2000):
        """calls fn() once per feasible path; yields (path_condition, result or exception)"""
        self.pending = [[]]
        n = 0
        while self.pending:
            self.prefix = self.pending.pop()
            self.trace = []
            Explorer.current = self
            n += 1
            if n > max_paths:
                raise Unsupported('more than %d paths' % max_paths)
            try:
                res = ('ok', fn())
            except PathEnd:
                continue
            except Unsupported:
                raise
            except Exception as e:   # what the code under test raises on this path
                res = ('raised', e)
            finally:
                Explorer.current = None
            yield self.path_condition(), res


class SymBool(object):
    def __init__(self, expr):
        self.expr = expr

    def __bool__(self):
        if Explorer.current is None:
            raise Unsupported('symbolic boolean used outside exploration')
        return Explorer.current.branch(self.expr)

    def __and__(self, o):
        return SymBool(z3.And(self.expr, _b(o)))

    def __or__(self, o):
        return SymBool(z3.Or(self.expr, _b(o)))

    def __invert__(self):
        return SymBool(z3.Not(self.expr))


def _b(x):
    if isinstance(x, SymBool):
        return x.expr
    if isinstance(x, bool):
        return z3.BoolVal(x)
    return x


def mkbool(x):
    """bool for static values, SymBool otherwise"""
    if isinstance(x, bool):
        return x
    x = z3.simplify(x)
    if z3.is_true(x):
        return True
    if z3.is_false(x):
        return False
    return SymBool(x)


class SymInt(object):
    def __init__(self, expr):
        self.expr = expr

    def _o(self, o):
        return o.expr if isinstance(o, SymInt) else o

    def __gt__(self, o):
        return mkbool(self.expr > self._o(o))

    def __ge__(self, o):
        return mkbool(self.expr >= self._o(o))

    def __lt__(self, o):
        return mkbool(self.expr < self._o(o))

    def __le__(self, o):
        return mkbool(self.expr <= self._o(o))

    def __eq__(self, o):
        return mkbool(self.expr == self._o(o))

    def __ne__(self, o):
        return mkbool(self.expr != self._o(o))

    def __add__(self, o):
        return SymInt(self.expr + self._o(o))

    __radd__ = __add__

    def __sub__(self, o):
        return SymInt(self.expr - self._o(o))

    def __hash__(self):
        return id(self)


def ceq(a, b):
    """character equality: int|BitVec vs int|BitVec -> bool | z3 Bool"""
    if isinstance(a, int) and isinstance(b, int):
        return a == b
    return bv(a) == bv(b)


def cin(c, codes):
    if isinstance(c, int):
        return c in codes
    codes = sorted(codes)
    # compress into ranges
    out, i = [], 0
    while i < len(codes):
        j = i
        while j + 1 < len(codes) and codes[j + 1] == codes[j] + 1:
            j += 1
        out.append(c == codes[i] if i == j else z3.And(z3.UGE(c, codes[i]), z3.ULE(c, codes[j])))
        i = j + 1
    return Or(*out)


class PStr(object):
    def __init__(self, chars):
        self.chars = list(chars)

    @staticmethod
    def fresh(name, n, alphabet, solver):
        cs = [z3.BitVec('%s_%d' % (name, i), 8) for i in range(n)]
        codes = sorted(ord(a) for a in alphabet)
        import pysym
        for c in cs:
            solver.add(z3.Or(*[c == k for k in codes]))
            pysym.CHAR_DOMAIN[c.get_id()] = frozenset(codes)
        return PStr(cs)

    @staticmethod
    def of(x):
        if isinstance(x, PStr):
            return x
        if isinstance(x, str):
            return PStr([ord(ch) for ch in x])
        raise Unsupported('cannot view %r as a string' % type(x))

    def __len__(self):
        return len(self.chars)

    def __bool__(self):
        return len(self.chars) > 0

    def __getitem__(self, k):
        if isinstance(k, slice):
            return PStr(self.chars[k])
        return PStr([self.chars[k]])

    def __add__(self, o):
        return PStr(self.chars + PStr.of(o).chars)

    def __radd__(self, o):
        return PStr(PStr.of(o).chars + self.chars)

    def eq_expr(self, o):
        o = PStr.of(o)
        if len(o.chars) != len(self.chars):
            return False
        return And(*[ceq(a, b) for a, b in zip(self.chars, o.chars)])

    def __eq__(self, o):
        if not isinstance(o, (str, PStr)):
            return False
        return mkbool(self.eq_expr(o))

    def __ne__(self, o):
        if not isinstance(o, (str, PStr)):
            return True
        return mkbool(Not(self.eq_expr(o)))

    def __hash__(self):
        return id(self)

    def _first(self, sub, a):
        """position of the first occurrence of a one-character string (forks on every position), or -1"""
        if a or not isinstance(sub, str) or len(sub) != 1:
            raise Unsupported('find/index/in with %r on a symbolic string' % (sub,))
        for k, c in enumerate(self.chars):
            if mkbool(ceq(c, ord(sub))):
                return k
        return -1

    def find(self, sub, *a):
        return self._first(sub, a)

    def index(self, sub, *a):
        k = self._first(sub, a)
        if k < 0:
            raise ValueError('substring not found')
        return k

    def __contains__(self, sub):
        if isinstance(sub, str) and len(sub) == 1:
            return mkbool(Or(*[ceq(c, ord(sub)) for c in self.chars]))
        raise Unsupported('`in` with %r on a symbolic string' % (sub,))

    def count(self, sub, *a):
        raise Unsupported('count on a symbolic string')

    def replace(self, old, new, *a):
        if a or not isinstance(old, str) or len(old) != 1 or not isinstance(new, str):
            raise Unsupported('replace(%r, %r) on a symbolic string' % (type(old).__name__, type(new).__name__))
        return self.to_symstr().replace(old, new)      # continue on guarded slots (escape kernel)

    def strip(self, *a):
        raise Unsupported('strip on a symbolic string')

    def __format__(self, spec):
        raise Unsupported('str.format reached a symbolic string (the module was not rewritten)')

    def __repr__(self):
        return 'PStr(%d)' % len(self.chars)

    def concrete(self, model):
        return ''.join(chr(c if isinstance(c, int) else model.eval(c, model_completion=True).as_long()) for c in self.chars)

    def to_symstr(self):
        return SymStr([(True, c) for c in self.chars])

    def digit(self, k):
        """z3 Int value of the decimal digit at position k (meaningful when the char is a digit)"""
        c = self.chars[k]
        if isinstance(c, int):
            return z3.IntVal(c - 48)
        return z3.BV2Int(c) - 48

    def is_digit(self, k):
        return cin(self.chars[k], range(48, 58))

    def number(self, a, b):
        v = z3.IntVal(0)
        for k in range(a, b):
            v = v * 10 + self.digit(k)
        return v


# ---- regex matching over a PStr (language semantics; no priorities, no groups) -----------------------------------------
_DIGITS = set(range(48, 58))
_SPACES = {9, 10, 11, 12, 13, 32}
_WORD = set(range(48, 58)) | set(range(65, 91)) | set(range(97, 123)) | {95}
_ALL = set(range(0, 128))


def _charset(items, ignorecase=False):
    out = set()
    neg = False
    for (o, a) in items:
        if o == _sre_c.NEGATE:
            neg = True
        elif o == _sre_c.LITERAL:
            out.add(a)
        elif o == _sre_c.RANGE:
            out.update(range(a[0], a[1] + 1))
        elif o == _sre_c.CATEGORY:
            out |= {_sre_c.CATEGORY_DIGIT: _DIGITS, _sre_c.CATEGORY_SPACE: _SPACES, _sre_c.CATEGORY_WORD: _WORD,
                    _sre_c.CATEGORY_NOT_DIGIT: _ALL - _DIGITS, _sre_c.CATEGORY_NOT_SPACE: _ALL - _SPACES,
                    _sre_c.CATEGORY_NOT_WORD: _ALL - _WORD}[a]
        else:
            raise Unsupported('regex class item %r' % (o,))
    if ignorecase:
        out |= {c ^ 32 for c in out if 65 <= (c & ~32) <= 90}
    return (_ALL - out) if neg else out


def _ends(items, s, i, ic):
    """dict end_position -> condition for matching the item sequence from position i"""
    cur = {i: True}
    for it in items:
        nxt = {}
        for pos, cond in cur.items():
            for e, c2 in _ends_one(it, s, pos, ic).items():
                nxt[e] = Or(nxt.get(e, False), And(cond, c2))
        cur = nxt
        if not cur:
            break
    return cur


def _ends_one(item, s, i, ic):
    op, av = item
    n = len(s.chars)
    if op == _sre_c.LITERAL:
        if i >= n:
            return {}
        codes = {av} | ({av ^ 32} if ic and 65 <= (av & ~32) <= 90 else set())
        return {i + 1: cin(s.chars[i], codes)}
    if op == _sre_c.NOT_LITERAL:
        if i >= n:
            return {}
        return {i + 1: Not(ceq(s.chars[i], av))}
    if op == _sre_c.ANY:
        if i >= n:
            return {}
        return {i + 1: Not(ceq(s.chars[i], 10))}
    if op == _sre_c.IN:
        if i >= n:
            return {}
        return {i + 1: cin(s.chars[i], _charset(av, ic))}
    if op == _sre_c.BRANCH:
        out = {}
        for alt in av[1]:
            for e, c in _ends(list(alt), s, i, ic).items():
                out[e] = Or(out.get(e, False), c)
        return out
    if op == _sre_c.SUBPATTERN:
        return _ends(list(av[3]), s, i, ic)
    if op in (_sre_c.MAX_REPEAT, _sre_c.MIN_REPEAT):
        lo, hi, sub = av
        out = {}
        cur = {i: True}
        k = 0
        if lo == 0:
            out[i] = True
        while cur and k < min(hi, n - i + 1):
            nxt = {}
            for pos, cond in cur.items():
                for e, c2 in _ends(list(sub), s, pos, ic).items():
                    if e == pos:
                        continue
                    nxt[e] = Or(nxt.get(e, False), And(cond, c2))
            k += 1
            cur = nxt
            if k >= lo:
                for e, c in cur.items():
                    out[e] = Or(out.get(e, False), c)
        return out
    if op == _sre_c.AT:
        if av in (_sre_c.AT_END, _sre_c.AT_END_STRING):
            return {i: True} if i == n else ({i: ceq(s.chars[i], 10)} if av == _sre_c.AT_END and i == n - 1 else {})
        if av in (_sre_c.AT_BEGINNING, _sre_c.AT_BEGINNING_STRING):
            return {i: True} if i == 0 else {}
        raise Unsupported('regex anchor %r' % (av,))
    raise Unsupported('regex item %r' % (op,))


def parse_pattern(pattern, flags=0):
    import re
    tree = _sre_parse.parse(pattern, flags)
    return list(tree), bool((flags | tree.state.flags) & re.IGNORECASE)


def fullmatch_expr(pattern, s, flags=0):
    items, ic = parse_pattern(pattern, flags)
    return _ends(items, s, 0, ic).get(len(s.chars), False)


def search_expr(pattern, s, flags=0):
    """condition for re.search(pattern, s) to succeed (some start position, any end)"""
    items, ic = parse_pattern(pattern, flags)
    out = False
    for i in range(len(s.chars) + 1):
        ends = _ends(items, s, i, ic)
        out = Or(out, *ends.values())
    return out
