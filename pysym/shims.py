"""Environment shims seen by the re-executed kernel modules (hl7apy.utils, hl7apy.factories, hl7apy.base_datatypes).

Each shim passes concrete arguments to the real library function and implements the symbolic case from the library's own
data (CPython's strptime regexes are read from _strptime.TimeRE at run time).  Every shim is validated against the real
function on concrete inputs by harness/c13.py (validate_shims) on every run.
"""
import datetime as _dt
import re as _re
import _strptime

import z3

from pysym import Unsupported, SymStr, And, Or, Not
from pysym import pstr as P
from pysym.pstr import PStr, SymInt, SymBool, mkbool, Explorer

# flags set by shims on the current path: which lenient (non-HL7) library behaviours the path relied on
LENIENT = []


def note_lenient(what):
    LENIENT.append(what)


# ---- re (for hl7apy.utils._split_offset) ------------------------------------------------------------------------------
class _Match(object):
    def __init__(self, group1):
        self._g1 = group1

    def groups(self):
        return (self._g1,)

    def group(self, k=0):
        if k == 1:
            return self._g1
        raise Unsupported('match.group(%r)' % k)


class ReShim(object):
    escape = staticmethod(_re.escape)
    compile = staticmethod(_re.compile)
    IGNORECASE = _re.IGNORECASE

    @staticmethod
    def search(pattern, string, flags=0):
        if not isinstance(string, PStr):
            return _re.search(pattern, string, flags)
        items, ic = P.parse_pattern(pattern, flags)
        # supported shape:  <prefix items> ( group 1 of fixed width ) $
        if not items or items[-1] != (P._sre_c.AT, P._sre_c.AT_END) or items[-2][0] != P._sre_c.SUBPATTERN:
            raise Unsupported('re.search pattern %r on a symbolic string' % pattern)
        grp = items[-2]
        lo, hi = P._sre_parse.SubPattern(P._sre_parse.State(), [grp]).getwidth()
        if lo != hi:
            raise Unsupported('group of variable width in %r' % pattern)
        w = lo
        body = items[:-1]
        n = len(string)
        # the match may end at n, or at n-1 when the last character is a newline ($ semantics)
        for end in (n, n - 1):
            if end < w:
                continue
            cond = False
            for i in range(0, end + 1):
                e = P._ends(body, string, i, ic)
                if end in e:
                    cond = Or(cond, e[end])
            if end == n - 1:
                cond = And(cond, P.ceq(string.chars[n - 1], 10))
            b = mkbool(cond)
            if b:
                return _Match(string[end - w:end])
        return None

    @staticmethod
    def match(pattern, string, flags=0):
        if isinstance(string, (PStr, SymStr)):
            raise Unsupported('re.match on a symbolic string')
        return _re.match(pattern, string, flags)


# ---- datetime ------------------------------------------------------------------------------------------------------------
_WIDTH = {'Y': 4, 'm': 2, 'd': 2, 'H': 2, 'M': 2, 'S': 2}


def _directives(fmt):
    """[('lit', char) | ('dir', letter)]"""
    out, i = [], 0
    while i < len(fmt):
        if fmt[i] == '%':
            out.append(('dir', fmt[i + 1]))
            i += 2
        else:
            out.append(('lit', fmt[i]))
            i += 1
    return out


class SymDT(object):
    """result of a symbolic strptime on the canonical (fixed width, all digits) reading: field -> (source PStr, z3 Int)"""

    def __init__(self, fields):
        self.fields = fields

    def _get(self, k, default):
        return SymInt(self.fields[k][1]) if k in self.fields else default

    year = property(lambda self: self._get('Y', 1900))
    month = property(lambda self: self._get('m', 1))
    day = property(lambda self: self._get('d', 1))
    hour = property(lambda self: self._get('H', 0))
    minute = property(lambda self: self._get('M', 0))
    second = property(lambda self: self._get('S', 0))


def _dim(y, m):
    leap = z3.And(y % 4 == 0, z3.Or(y % 100 != 0, y % 400 == 0))
    return z3.If(m == 2, z3.If(leap, 29, 28), z3.If(z3.Or(m == 4, m == 6, m == 9, m == 11), 30, 31))


class DateTimeShim(object):
    """stands for the class datetime.datetime in the kernel modules"""

    @staticmethod
    def now():
        return _dt.datetime.now()

    @staticmethod
    def strptime(value, fmt):
        if isinstance(value, str):
            return _dt.datetime.strptime(value, fmt)
        if not isinstance(value, PStr):
            raise TypeError('strptime() argument 1 must be str')
        dirs = _directives(fmt)
        n = len(value)
        # canonical reading: every directive takes its full width (%f: all remaining characters, 1..6)
        fixed = sum(_WIDTH[d] for k, d in dirs if k == 'dir' and d != 'f') + sum(1 for k, d in dirs if k == 'lit')
        has_f = any(k == 'dir' and d == 'f' for k, d in dirs)
        canon = None
        if (not has_f and n == fixed) or (has_f and 1 <= n - fixed <= 6):
            pos, conds, fields = 0, [], {}
            for k, d in dirs:
                if k == 'lit':
                    conds.append(P.ceq(value.chars[pos], ord(d)))
                    pos += 1
                    continue
                w = (n - fixed) if d == 'f' else _WIDTH[d]
                for q in range(pos, pos + w):
                    conds.append(value.is_digit(q))
                fields[d] = (value[pos:pos + w], value.number(pos, pos + w))
                pos += w
            canon = (And(*conds), fields)
        if canon is not None and mkbool(canon[0]):
            fields = canon[1]
            v = lambda k, dflt: fields[k][1] if k in fields else z3.IntVal(dflt)
            y, m, d = v('Y', 1900), v('m', 1), v('d', 1)
            ok = z3.And(y >= 1, m >= 1, m <= 12, d >= 1, d <= _dim(y, m), v('H', 0) <= 23, v('M', 0) <= 59, v('S', 0) <= 59)
            if mkbool(ok):
                return SymDT(fields)
            raise ValueError('time data does not match format (field out of range)')
        # not the canonical reading: CPython may still accept it (single-digit fields, a blank before the day, ...).
        # Decided by the language of CPython's own regex for the format; the path is flagged lenient.
        pattern = _strptime._TimeRE_cache.pattern(fmt)
        acc = P.fullmatch_expr(pattern, value, _re.IGNORECASE)
        if mkbool(acc):
            note_lenient('strptime accepts a non fixed-width spelling of %s' % fmt)
            raise LenientAccept('strptime(%s)' % fmt)
        raise ValueError('time data does not match format')

    @staticmethod
    def strftime(obj, fmt):
        if isinstance(obj, (_dt.datetime, _dt.date)):
            return _dt.datetime.strftime(obj, fmt)
        if not isinstance(obj, SymDT):
            raise TypeError('strftime on %r' % type(obj))
        slots = []
        for k, d in _directives(fmt):
            if k == 'lit':
                slots.append((True, ord(d)))
            elif d == 'Y':
                c = obj.fields['Y'][0].chars
                z = [P.ceq(x, 48) for x in c]
                slots += [(Not(z[0]), c[0]), (Not(And(z[0], z[1])), c[1]), (Not(And(z[0], z[1], z[2])), c[2]), (True, c[3])]
            elif d == 'f':
                src = obj.fields['f'][0].chars if 'f' in obj.fields else []
                slots += [(True, x) for x in src] + [(True, 48)] * (6 - len(src))
            else:
                if d in obj.fields:
                    slots += [(True, x) for x in obj.fields[d][0].chars]
                else:
                    dflt = {'m': '01', 'd': '01', 'H': '00', 'M': '00', 'S': '00'}[d]
                    slots += [(True, ord(x)) for x in dflt]
        return OutStr(slots)


class LenientAccept(Exception):
    """a library function accepted the input through a lenient (non-HL7) reading whose value is not modelled"""


class OutStr(SymStr):
    """rendered text: guarded slots + the few str operations the encoders apply to it"""

    def __init__(self, slots):
        SymStr.__init__(self, slots, ['out'] * len(slots))

    def __getitem__(self, k):
        if isinstance(k, slice) and k.start is None and k.step is None and isinstance(k.stop, int) and k.stop < 0:
            cut = -k.stop
            if any(g is not True for g, _ in self.slots[-cut:]):
                raise Unsupported('slice across guarded slots')
            return OutStr(self.slots[:-cut])
        raise Unsupported('index %r on rendered text' % (k,))

    def __add__(self, o):
        return OutStr(self.slots + as_slots(o))

    def __radd__(self, o):
        return OutStr(as_slots(o) + self.slots)


def as_slots(x):
    if isinstance(x, SymStr):
        return list(x.slots)
    if isinstance(x, PStr):
        return [(True, c) for c in x.chars]
    if isinstance(x, str):
        return [(True, ord(c)) for c in x]
    if x is None:
        return [(True, ord(c)) for c in 'None']
    if isinstance(x, int) and not isinstance(x, bool):
        return [(True, ord(c)) for c in str(x)]
    if hasattr(x, 'render_slots'):
        return x.render_slots()
    raise Unsupported('cannot render %r' % type(x))


_FIELD = _re.compile(r'\{(\w*)(?::([^{}]*))?\}')


def sym_format(template, *args, **kwargs):
    """replacement for  "<literal>".format(...)  in the rewritten modules"""
    if not any(isinstance(a, (PStr, SymStr, SymInt)) or hasattr(a, 'render_slots') for a in list(args) + list(kwargs.values())):
        return template.format(*args, **kwargs)
    slots, pos, auto = [], 0, 0
    for m in _FIELD.finditer(template):
        slots += [(True, ord(c)) for c in template[pos:m.start()]]
        key = m.group(1)
        if key == '':
            val = args[auto]
            auto += 1
        elif key.isdigit():
            val = args[int(key)]
        else:
            val = kwargs[key]
        spec = m.group(2) or ''
        if spec and not isinstance(val, SymDecimal):
            raise Unsupported('format spec %r for %r' % (spec, type(val)))
        slots += val.render_slots(spec) if isinstance(val, SymDecimal) else as_slots(val)
        pos = m.end()
    slots += [(True, ord(c)) for c in template[pos:]]
    return OutStr(slots)


def sym_len(x):
    if isinstance(x, SymStr):
        if all(g is True for g, _ in x.slots):
            return len(x.slots)
        raise Unsupported('len() of text with guarded slots')
    return len(x)


# ---- int() and Decimal() ------------------------------------------------------------------------------------------------------
import numbers as _numbers
import decimal as _decimal


def _count(guards):
    return z3.Sum([z3.If(g, 1, 0) if not isinstance(g, bool) else z3.IntVal(1 if g else 0) for g in guards]) if guards else z3.IntVal(0)


def sym_len(x):                                  # noqa: F811  (final definition: symbolic length for guarded text)
    if isinstance(x, SymStr):
        if all(g is True for g, _ in x.slots):
            return len(x.slots)
        return SymInt(_count([g for g, _ in x.slots]))
    return len(x)


def _leading_zero_guards(chars):
    """guards that drop leading zeros of a digit string but keep its last digit"""
    out, allzero = [], True
    for k, c in enumerate(chars):
        if k == len(chars) - 1:
            out.append(True)
        else:
            allzero = And(allzero, P.ceq(c, 48))
            out.append(Not(allzero))
    return out


class SymIntegral(object):
    """int(text) for a canonical literal  [+-]?digits : value and canonical rendering"""

    def __init__(self, src, sign_char, digits):
        self.src, self.sign_char, self.digits = src, sign_char, digits

    def render_slots(self):
        g = _leading_zero_guards(self.digits)
        slots = []
        if self.sign_char is not None:
            nonzero = Or(*[Not(P.ceq(c, 48)) for c in self.digits])
            slots.append((And(P.ceq(self.sign_char, 45), nonzero), 45))       # '-' kept unless the value is zero
        return slots + list(zip(g, self.digits))


_numbers.Integral.register(SymIntegral)


def sym_int(x, *a):
    if not isinstance(x, PStr):
        return int(x, *a)
    if a:
        raise Unsupported('int() with a base on a symbolic string')
    n = len(x)
    for sign in (0, 1):
        if n - sign < 1:
            continue
        cond = And(P.cin(x.chars[0], {43, 45}) if sign else True, *[x.is_digit(k) for k in range(sign, n)])
        if mkbool(cond):
            if sign:
                note_lenient('int() accepts a sign')
            return SymIntegral(x, x.chars[0] if sign else None, x.chars[sign:])
    # everything else CPython's int() accepts: blanks around, single underscores between digits
    acc = P.fullmatch_expr(r'[ \t\n\r\f\v]*[+-]?[0-9]+(_[0-9]+)*[ \t\n\r\f\v]*', x)
    if mkbool(acc):
        note_lenient('int() accepts blanks / underscores')
        raise LenientAccept('int')
    raise ValueError('invalid literal for int()')


class SymDecimal(object):
    """Decimal(text) for a literal  [+-]?digits[.digits] : rendering by str() / format(, 'f')"""

    def __init__(self, src, sign_char, int_digits, frac_digits):
        self.src, self.sign_char, self.int_digits, self.frac_digits = src, sign_char, int_digits, frac_digits

    def _plain(self):
        g = _leading_zero_guards(self.int_digits)
        slots = []
        if self.sign_char is not None:
            slots.append((P.ceq(self.sign_char, 45), 45))
        slots += list(zip(g, self.int_digits))
        if self.frac_digits:
            slots.append((True, 46))
            slots += [(True, c) for c in self.frac_digits]
        return slots

    def render_slots(self, spec=''):
        """spec 'f': plain decimal form.  spec '': Decimal.__str__, which switches to scientific notation when the exponent is
        negative and  len(coefficient) - len(fraction) <= -6  (decimal.py: leftdigits > -6 keeps the plain form); the coefficient is
        the digit string without its leading zeros ('0' for zero)."""
        if spec == 'f' or not self.frac_digits:
            return self._plain()
        if spec != '':
            raise Unsupported('format spec %r for a Decimal' % spec)
        alld = list(self.int_digits) + list(self.frac_digits)
        F = len(self.frac_digits)
        sig = _leading_zero_guards(alld)
        static = all(isinstance(g, bool) for g in sig)
        L = sum(1 for g in sig if g) if static else _count(sig)
        sci = (L - F <= -6)
        if sci is False or (static and not sci):
            return self._plain()
        nsci = Not(sci) if not static else False
        slots = [(And(g, nsci), c) for g, c in self._plain()] if not static else []
        if self.sign_char is not None:
            slots.append((And(sci, P.ceq(self.sign_char, 45)), 45))
        last = len(alld) - 1
        for p, c in enumerate(alld):
            slots.append((And(sci, sig[p]), c))
            if p < last:
                first = And(sig[p], Not(sig[p - 1])) if p > 0 else sig[p]
                slots.append((And(sci, first), 46))
        slots.append((sci, 69))          # 'E'
        slots.append((sci, 45))          # '-'
        exp = F - L + 1                  # magnitude of the (negative) exponent, >= 7
        if static:
            slots += [(True, ord(ch)) for ch in str(exp)]
        else:
            if F + 1 > 99:
                raise Unsupported('exponent with more than two digits')
            slots.append((And(sci, exp >= 10), z3.Int2BV(48 + exp / 10, 8)))
            slots.append((sci, z3.Int2BV(48 + exp % 10, 8)))
        return slots


class DecimalMeta(type):
    def __instancecheck__(cls, obj):
        return isinstance(obj, (SymDecimal, _decimal.Decimal))


class DecimalShim(metaclass=DecimalMeta):
    """stands for decimal.Decimal in hl7apy.factories / hl7apy.base_datatypes"""

    def __new__(cls, value='0', *a):
        if not isinstance(value, PStr):
            return _decimal.Decimal(value, *a)
        n = len(value)
        for sign in (0, 1):
            for dot in [None] + list(range(sign + 1, n - 1)):
                digits_end = n if dot is None else dot
                if digits_end - sign < 1:
                    continue
                conds = [P.cin(value.chars[0], {43, 45})] if sign else []
                conds += [value.is_digit(k) for k in range(sign, digits_end)]
                if dot is not None:
                    conds += [P.ceq(value.chars[dot], 46)] + [value.is_digit(k) for k in range(dot + 1, n)]
                if mkbool(And(*conds)):
                    ints = value.chars[sign:digits_end]
                    fracs = value.chars[dot + 1:] if dot is not None else []
                    return SymDecimal(value, value.chars[0] if sign else None, ints, fracs)
        # everything else Decimal() accepts (grammar of decimal.Decimal written out; validated against the real constructor):
        # blanks around, underscores among the digits, bare points, exponents, Infinity, NaN
        D = '[0-9_]'
        acc = P.fullmatch_expr(r'[ \t\n\r\f\v_]*[+-]?(?:(?:' + D + r'+\.?' + D + r'*|\.' + D + r'+)(?:[eE][+-]?' + D + r'+)?|'
                               r'[iI][nN][fF](?:[iI][nN][iI][tT][yY])?|[sS]?[nN][aA][nN]' + D + r'*)[ \t\n\r\f\v_]*', value)
        if mkbool(acc):
            note_lenient('Decimal() accepts exponents / NaN / Infinity / blanks / underscores / bare points')
            raise LenientAccept('Decimal')
        raise _decimal.InvalidOperation('invalid literal for Decimal')
