"""Re-execute hl7apy's string kernel modules FROM THEIR CURRENT SOURCE with three AST rewrites and shimmed globals, inside the
already imported package (so that the classes the version tables hand out are the re-executed ones).

Rewrites (ast.NodeTransformer):
   "<literal>".format(...)      ->  _symfmt_("<literal>", ...)
   len(x)                       ->  __sym_len(x)          (through a module global named len)
   int(x)                       ->  __sym_int(x)          (through a module global named int; factories only)
Globals bound after execution: re, datetime, Decimal / InvalidOperation as listed in KERNELS.
"""
import ast
import importlib
import sys

from pysym import reshim
from pysym import shims


class _Rewriter(ast.NodeTransformer):
    def visit_Call(self, node):
        self.generic_visit(node)
        f = node.func
        if isinstance(f, ast.Attribute) and f.attr == 'format' and isinstance(f.value, ast.Constant) and isinstance(f.value.value, str):
            return ast.copy_location(ast.Call(func=ast.Name(id='_symfmt_', ctx=ast.Load()),
                                              args=[f.value] + node.args, keywords=node.keywords), node)
        return node


def _version_kernels():
    """every hl7apy.v2_*.base_datatypes module of the working tree (v2_1, v2_6, v2_7 at the time of writing)"""
    import glob
    import os
    import hl7apy
    root = os.path.dirname(hl7apy.__file__)
    return sorted('hl7apy.%s.base_datatypes' % os.path.basename(os.path.dirname(p))
                  for p in glob.glob(os.path.join(root, 'v2_*', 'base_datatypes.py')))


KERNELS = ['hl7apy.utils', 'hl7apy.base_datatypes'] + _version_kernels() + ['hl7apy.factories']
_loaded = {}


def load(extra_globals=None):
    """returns dict name -> module; idempotent per process"""
    if _loaded:
        return _loaded
    import hl7apy
    hashes = {}
    for name in KERNELS:
        mod = importlib.import_module(name)
        with open(mod.__file__) as f:
            src = f.read()
        tree = _Rewriter().visit(ast.parse(src, mod.__file__))
        ast.fix_missing_locations(tree)
        code = compile(tree, mod.__file__, 'exec')
        g = mod.__dict__
        g['_symfmt_'] = shims.sym_format
        exec(code, g)
        # shimmed environment (bound AFTER execution: the module's own imports would overwrite them)
        g['len'] = shims.sym_len
        if name == 'hl7apy.utils':
            g['re'] = shims.ReShim
            g['datetime'] = shims.DateTimeShim
        elif name.endswith('base_datatypes'):
            g['re'] = reshim
            if 'datetime' in g:
                g['datetime'] = shims.DateTimeShim
            if 'Decimal' in g:
                g['Decimal'] = shims.DecimalShim
        elif name == 'hl7apy.factories':
            g['Decimal'] = shims.DecimalShim
            g['int'] = shims.sym_int
        for k, v in (extra_globals or {}).get(name, {}).items():
            g[k] = v
        _loaded[name] = mod
        if name == [k for k in KERNELS if k.endswith('.base_datatypes')][-1]:
            # the version packages captured the old classes at import time: rebuild their BASE_DATATYPES
            for v, pkg in sorted(hl7apy.SUPPORTED_LIBRARIES.items()):
                if pkg in sys.modules:
                    importlib.reload(sys.modules[pkg])
                else:
                    importlib.import_module(pkg)
    return _loaded
