"""Second opinion on E2 queries: the assertions of a z3 solver are printed as SMT-LIB2 and decided again by the cvc5 binary.

Used by the thorough tier (VP_CROSS=1).  The result of a query stays z3's; this module only counts agreement.  A query on which the
two solvers give opposite definite answers is a harness error (one of the two is wrong, so nothing is believed); a cvc5 timeout,
`unknown` or `(error` line is counted as "not cross-decided"."""
import os
import shutil
import subprocess
import tempfile

ENABLED = os.environ.get('VP_CROSS', '1' if os.environ.get('VERIF_TIER') == 'thorough' else '0') == '1'
CVC5 = shutil.which('cvc5')
Z3_OLD = '/usr/bin/z3' if os.path.exists('/usr/bin/z3') else None
TLIMIT_S = int(os.environ.get('VP_CROSS_TLIMIT', '30'))


def new_stats():
    return {'cross_agree': 0, 'cross_undecided': 0, 'cross_disagree': [], 'cross_s': 0.0}


def merge(total, part):
    for k in ('cross_agree', 'cross_undecided'):
        total[k] = total.get(k, 0) + part.get(k, 0)
    total['cross_s'] = total.get('cross_s', 0.0) + part.get('cross_s', 0.0)
    total.setdefault('cross_disagree', []).extend(part.get('cross_disagree', []))
    by = total.setdefault('cross_by', {})
    for k, v in part.get('cross_by', {}).items():
        by[k] = by.get(k, 0) + v
    return total


def _run(cmd, limit):
    try:
        p = subprocess.run(cmd, capture_output=True, text=True, timeout=limit + 10)
    except subprocess.TimeoutExpired:
        return 'timeout'
    if '(error' in p.stdout or '(error' in p.stderr:
        return 'error'
    for line in p.stdout.splitlines():
        if line.strip() in ('sat', 'unsat', 'unknown'):
            return line.strip()
    return 'none'


def decide(solver, z3_answer, stats, label=''):
    """z3_answer: 'sat' | 'unsat' | anything else (then nothing is compared).
    Second opinion: cvc5 (eager bit-blasting when the query is pure QF_BV); when cvc5 does not decide within its limit, the
    distribution's z3 4.8.12 binary (a different release of z3 than the 5.x wheel that answered first)."""
    if not ENABLED or z3_answer not in ('sat', 'unsat'):
        return None
    import time
    text = solver.to_smt2()
    pure_bv = not any(k in text for k in ('ubv_to_int', 'bv2', 'int2bv', ' Int', 'Real', 'String', '(Array', '(+ ', '(* ', '(- ', '(<= ', '(>= ', '(< ', '(> '))
    fd, path = tempfile.mkstemp(suffix='.smt2', prefix='vp_cross_')
    t0 = time.time()
    ans, who = 'none', None
    try:
        with os.fdopen(fd, 'w') as f:
            f.write(('(set-logic QF_BV)\n' if pure_bv else '') + text.replace('ubv_to_int', 'bv2nat'))
        stats['_n'] = stats.get('_n', 0) + 1
        if pure_bv:
            order = [('cvc5', [CVC5, '--lang=smt2', '--tlimit=%d' % (TLIMIT_S * 1000), '--bitblast=eager', path] if CVC5 else None),
                     ('z3-4.8.12', [Z3_OLD, '-T:%d' % TLIMIT_S, path] if Z3_OLD else None)]
        else:
            # mixed bit-vector / integer queries (C13): cvc5 1.0 needs seconds for each of them, so it gets every 8th query and
            # the older z3 release the others
            cv = ('cvc5', [CVC5, '--lang=smt2', '--tlimit=%d' % (TLIMIT_S * 1000), path] if CVC5 else None)
            zo = ('z3-4.8.12', [Z3_OLD, '-T:%d' % TLIMIT_S, path] if Z3_OLD else None)
            order = [cv, zo] if stats['_n'] % 8 == 0 else [zo, cv]
        for name, cmd in order:
            if cmd is None:
                continue
            ans, who = _run(cmd, TLIMIT_S), name
            if ans in ('sat', 'unsat'):
                break
    finally:
        try:
            os.unlink(path)
        except OSError:
            pass
    stats['cross_s'] += time.time() - t0
    if ans not in ('sat', 'unsat'):
        stats['cross_undecided'] += 1
        return None
    if ans == z3_answer:
        stats['cross_agree'] += 1
        stats['cross_by'] = stats.get('cross_by', {})
        stats['cross_by'][who] = stats['cross_by'].get(who, 0) + 1
        return True
    stats['cross_disagree'].append('%s: z3 %s, %s %s' % (label, z3_answer, who, ans))
    return False
