#!/venv/bin/python
# Replay of a counterexample for property C13, obligation E2.values (E2).
# Runs the harness obligation CONCRETELY on the solver's input against the library in '/tmp/repo_dev'
# (no CrossHair, no solver).  Exit 0: property holds on this input; exit 1: violation reproduced.
import os, sys
os.environ.update({'VP_PART': '0/1', 'VERIF_TIER': 'quick', 'VP_KNOWN_OFF': '1', 'VERIF_SEED': '0'})
os.environ.setdefault('VP_REPO', '/tmp/repo_dev')
sys.path[:0] = ['/verif']
sys.dont_write_bytecode = True
import importlib
H = importlib.import_module('harness.c13')
CALL = "_replay('A1', 'TM', '692.6', '2.4')"
try:
    ok = eval(CALL, H.__dict__)
    detail = 'returned %r' % (ok,)
except Exception as e:
    ok = False
    detail = 'raised %s: %s' % (type(e).__name__, e)
print('replay', CALL, '->', detail)
if hasattr(H, 'explain'):
    try:
        print(H.explain(CALL))
    except Exception as e:
        print('(explain failed: %r)' % (e,))
sys.exit(0 if ok is True else 1)
